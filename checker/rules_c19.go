package main

import (
	"fmt"
	"go/token"
	"go/types"
	"os"
	"sort"
	"strings"

	"golang.org/x/tools/go/ssa"
)

func init() {
	registry["C19"] = []func(*Report){ruleC19}
}

const idpPkgPath = modPath + "/samlidp"

func inPkg(fn *ssa.Function, path string) bool {
	for fn.Parent() != nil {
		fn = fn.Parent()
	}
	return fn.Pkg != nil && fn.Pkg.Pkg.Path() == path
}

func ruleC19(r *Report) {
	p := r.P
	r.Trusted("golang.org/x/crypto/bcrypt (CompareHashAndPassword)", "net/http, encoding/json, html/template", "go/ssa of golang.org/x/tools v0.29.0")
	r.NotDecided("histories, fault sequences and restart (an executable reference model over all histories is outside this family); in particular the consistency over time of the in-memory service registry with the stored services (the pinned-tree stale-registry defect is a relation between two requests)")
	r.Assume("the SessionProvider contract of the IdP (GetSession returns nil iff it completed the HTTP request) is used at the interface call sites and verified separately for the bundled implementation")
	r.Rule("C19.authn-gate", "the bundled GetSession returns a session only (a) under bcrypt.CompareHashAndPassword == nil against the stored hash of the posted user fetched without error, or (b) for a stored session fetched without error by the cookie's value and not expired on the library clock", 1)
	r.Rule("C19.session-source", "a session created at login describes the stored user: every identity field of the new session comes from the fetched user record, fresh randomness or the clock", 6)
	r.Rule("C19.sso-gate", "assertions are made and responses written only with a non-nil session from the session provider, after the request validated (SSO) or the registered provider and a POST endpoint were found (IdP-initiated), and the shortcut was fetched without error", 2)
	r.Rule("C19.one-reply", "every path through every handler of the bundled server and of the IdP performs exactly one reply action (a second only on the error edge of a failed first); the bundled GetSession replies exactly once when it returns nil and not at all otherwise", 12)
	r.Rule("C19.hash", "the stored password hash is read only by the credential check and the keep-on-update copy, is cleared before a user record is encoded to a response, and is never passed to a logger", 1)
	r.Rule("C19.store-errors", "the error of every backing-store call made by the bundled server is tested, and no success reply (2xx status, encoded result) is written on the failure edge of a store call unless the failure is specifically 'not found'", 12)

	checkAuthnGate(r, p)
	checkSSOGate(r, p)
	checkOneReply(r, p)
	checkHash(r, p)
	checkStoreErrors(r, p)
	r.Rule("C19.keys", "the service registry and the backing store are written, read and deleted under the same key expressions: registry updates and deletes use one field path of the service record; within a handler all item-level store calls use one key; item keys are a collection prefix plus one %s", 10)
	safely(r, func() { checkKeyAgreement(r, p) })
	checkStoreFailureReplies(r, p)
	r.Rule("C19.whole-password", "the password hashed when a user is stored and the password compared at login are the client's string itself, whole (a sub-range on one side lets a password that was never the user's pass)", 1)
	safely(r, func() { checkWholePassword(r, p, "C19.whole-password") })
	safely(r, func() { checkSessionWriters(r, p, "C19.session-source") })
	r.Rule("C19.current-password", "the stored hash is that of the password the last put carried: the earlier hash is kept only when the request carried no password (PlaintextPassword == nil), and whether the carried password is hashed depends on nothing about it but its presence", 2)
	safely(r, func() { checkCurrentPassword(r, p, "C19.current-password") })
}

// chainConds: the alternatives of the condition under which block b of fn executes, one per call chain: fn's own path
// condition, conjoined (for an unexported function, up to the given depth) with the condition of each call site.
func chainConds(a *Analysis, fn *ssa.Function, b *ssa.BasicBlock, depth int) []*bddNode {
	p := a.P
	own := a.Ctx(fn).Cond(b)
	if depth == 0 || fn.Object() == nil || fn.Object().Exported() {
		return []*bddNode{own}
	}
	sites := p.CallersOf(fn)
	if len(sites) == 0 {
		return []*bddNode{own}
	}
	var out []*bddNode
	for _, cs := range sites {
		call, ok := cs.Instr.(*ssa.Call)
		if !ok || cs.Shift != 0 || call.Call.StaticCallee() != fn {
			out = append(out, own)
			continue
		}
		local := a.Ctx(cs.Caller).inlineCtx(fn, call.Call.Args, call).Cond(b)
		for _, up := range chainConds(a, cs.Caller, call.Block(), depth-1) {
			out = append(out, a.B.And(local, up))
		}
	}
	return out
}

// overriddenWhenCarried: the earlier hash is copied first and overridden afterwards: in fn, every store-write (an
// invoke of Put) that is reached with a carried password is reached through the block that stores the result of
// GenerateFromPassword into the record (condition of the Put, with the password present, implies that block's).
func overriddenWhenCarried(a *Analysis, fn *ssa.Function, impliedNil func(*bddNode, bool) bool) bool {
	B := a.B
	fc := a.Ctx(fn)
	var gens, puts []*ssa.BasicBlock
	for _, b := range fn.Blocks {
		for _, in := range b.Instrs {
			switch x := in.(type) {
			case *ssa.Store:
				fa, ok := x.Addr.(*ssa.FieldAddr)
				if !ok || fieldName(fa.X.Type(), fa.Field) != "HashedPassword" {
					continue
				}
				if ex, ok := x.Val.(*ssa.Extract); ok && ex.Index == 0 {
					if c, ok := ex.Tuple.(*ssa.Call); ok && calleeIs(c, "golang.org/x/crypto/bcrypt.GenerateFromPassword") {
						gens = append(gens, b)
					}
				}
			case *ssa.Call:
				if x.Call.IsInvoke() && x.Call.Method.Name() == "Put" {
					puts = append(puts, b)
				}
			}
		}
	}
	if len(gens) != 1 || len(puts) == 0 {
		return false
	}
	carried := B.False
	for _, name := range B.names {
		if strings.HasPrefix(name, "isnil(") && strings.HasSuffix(name, ".PlaintextPassword)") {
			carried = B.Or(carried, B.Not(B.Var(name)))
		}
	}
	if carried == B.False {
		return false
	}
	for _, pb := range puts {
		if !B.Implies(B.And(fc.Cond(pb), carried), fc.Cond(gens[0])) {
			return false
		}
	}
	_ = impliedNil
	return true
}

// checkCurrentPassword: C19.current-password. "Login succeeds only with the user's current password": a put that
// carries a password replaces the hash. (a) The copy of the earlier record's hash into the record being stored executes
// only under isnil(<record>.PlaintextPassword); (b) the condition under which bcrypt.GenerateFromPassword runs mentions
// the carried password only through that nil test.
func checkCurrentPassword(r *Report, p *Prog, rule string) {
	a := NewAnalysis(p)
	B := a.B
	isNilPw := func(name string) bool {
		return strings.HasPrefix(name, "isnil(") && strings.HasSuffix(name, ".PlaintextPassword)")
	}
	impliedNil := func(f *bddNode, want bool) bool {
		for _, name := range B.names {
			if !isNilPw(name) {
				continue
			}
			v := B.Var(name)
			if !want {
				v = B.Not(v)
			}
			if B.Implies(f, v) {
				return true
			}
		}
		return false
	}
	nKeep, nGen := 0, 0
	for _, fn := range p.modFns {
		if !p.InLibrary(fn) || !inPkg(fn, idpPkgPath) {
			continue
		}
		for _, b := range fn.Blocks {
			for _, in := range b.Instrs {
				switch x := in.(type) {
				case *ssa.Store:
					fa, ok := x.Addr.(*ssa.FieldAddr)
					if !ok || !typeIs(fa.X.Type(), idpPkgPath, "User") || fieldName(fa.X.Type(), fa.Field) != "HashedPassword" {
						continue
					}
					ld, ok := x.Val.(*ssa.UnOp)
					if !ok || ld.Op != token.MUL {
						continue
					}
					src, ok := ld.X.(*ssa.FieldAddr)
					if !ok || !typeIs(src.X.Type(), idpPkgPath, "User") || fieldName(src.X.Type(), src.Field) != "HashedPassword" {
						continue
					}
					nKeep++
					r.Fn(p.FnName(fn))
					bad := ""
					for _, alt := range chainConds(a, fn, b, 3) {
						if !impliedNil(alt, true) {
							bad = B.String(alt)
							break
						}
					}
					if bad != "" && overriddenWhenCarried(a, fn, impliedNil) {
						bad = ""
					}
					r.Check(bad == "", rule, p.FnName(fn)+": the earlier hash is kept only when the request carried no password", p.InstrPos(in), "path condition implies PlaintextPassword == nil on every call chain", "the stored hash of the earlier record is kept under "+bad+", which does not imply that the request carried no password: a put with such a password leaves the former password valid")
				case *ssa.Call:
					if !calleeIs(x, "golang.org/x/crypto/bcrypt.GenerateFromPassword") {
						continue
					}
					nGen++
					r.Fn(p.FnName(fn))
					bad := ""
					for _, alt := range chainConds(a, fn, b, 3) {
						for _, name := range B.Support(alt) {
							if strings.Contains(name, "PlaintextPassword") && !isNilPw(name) {
								bad = firstNonEmpty(bad, "the hashing step runs under a condition on the password's content ("+name+")")
							}
						}
					}
					r.Check(bad == "", rule, p.FnName(fn)+": a carried password is hashed whatever it is", p.InstrPos(in), "the condition of GenerateFromPassword mentions the password only through PlaintextPassword != nil", bad+": a put carrying a password for which it is false stores no new hash, and the former password stays valid")
				}
			}
		}
	}
	if nKeep == 0 {
		r.OK(rule, "no keep-on-update copy of the stored hash", "-", "the stored hash is never carried over")
	}
	if nGen == 0 {
		r.Undecided(rule, "hashing of the carried password", "-", "no call of bcrypt.GenerateFromPassword found in samlidp")
	}
}

func storeCallKind(c *ssa.CallCommon) string {
	if !c.IsInvoke() {
		return ""
	}
	if !typeIs(c.Value.Type(), idpPkgPath, "Store") {
		return ""
	}
	return c.Method.Name()
}

func checkAuthnGate(r *Report, p *Prog) {
	top := p.MustFunc("samlidp", "Server", "GetSession")
	a := NewAnalysis(p)
	// the steps GetSession is split into (look the user up, compare the password, load the session, test its expiry) are
	// part of it: their outcomes are the outcomes of the store and bcrypt calls they make
	a.Inline = func(f *ssa.Function) bool {
		return inPkg(f, modPath+"/samlidp") && p.InLibrary(f) && f != top && (f.Object() == nil || !f.Object().Exported()) && (errIndex(f) >= 0 || isPredicate(f))
	}
	B := a.B
	// GetSession with the helpers it is split into (one per way of obtaining a session, a constructor for the new
	// session): every function of the region that returns a session is judged at its own returns, under the conditions
	// of the path that leads to it
	rg := NewRegion(p, top, 2)
	returnsSession := func(f *ssa.Function) bool {
		res := f.Signature.Results()
		return res.Len() >= 1 && typeIs(res.At(0).Type(), modPath, "Session")
	}
	// judged at the returns of GetSession itself: every session object that can reach one of them, under the conditions of
	// the whole path it takes (the blocks that select it inside the helpers it comes through, and what the callers test
	// after a helper handed it back)
	_ = returnsSession
	{
		act := rg.top
		fn := act.fn
		fc := rg.Ctx(a, act)
		fc.ensureConds()
		r.Fn(p.FnName(fn))
		// calls of interest anywhere in the region
		var cmp *ssa.Call
		var cmpFC *FuncCtx
		gets := map[string]*ssa.Call{} // "users" / "sessions" -> Store.Get call
		getFC := map[string]*FuncCtx{}
		for _, c := range rg.all {
			cfc := rg.Ctx(a, c)
			cfc.ensureConds()
			r.Fn(p.FnName(c.fn))
			for _, b := range c.fn.Blocks {
				for _, in := range b.Instrs {
					call, ok := in.(*ssa.Call)
					if !ok {
						continue
					}
					if calleeIs(call, "golang.org/x/crypto/bcrypt.CompareHashAndPassword") && cmp == nil {
						cmp, cmpFC = call, cfc
					}
					if storeCallKind(&call.Call) == "Get" {
						f, _ := storeKeyOf(cfc, call.Call.Args[0], 0)
						for _, o := range rg.Origins(RV{V: call.Call.Args[0], C: c}) {
							f, _ = storeKeyOf(rg.Ctx(a, o.C), o.V, 0)
						}
						switch {
						case strings.Contains(f, `/users/`):
							if gets["users"] == nil {
								gets["users"], getFC["users"] = call, cfc
							}
						case strings.Contains(f, `/sessions/`):
							if gets["sessions"] == nil {
								gets["sessions"], getFC["sessions"] = call, cfc
							}
						}
					}
				}
			}
		}
		keyArgAP := func(call *ssa.Call, cfc *FuncCtx) string {
			_, arg := storeKeyOf(cfc, call.Call.Args[0], 0)
			return arg
		}
		for _, ret := range fc.Returns() {
			v := Resolve(ret.Results[0])
			if isNilConst(v) {
				continue
			}
			blk := ret.Block()
			var work []RV
			work = append(work, rg.Origins(RV{V: v, C: act})...)
			var origins []RV
			unknown := false
			for i := 0; i < len(work) && i < 16; i++ {
				o := work[i]
				if isNilConst(o.V) {
					continue
				}
				// the result of a function (literal) that only ever returns nil (promptLogin := func(..) *Session {..; return nil})
				if oc, ok := o.V.(*ssa.Call); ok {
					if sc := oc.Call.StaticCallee(); sc != nil && len(sc.Blocks) > 0 {
						allNil := true
						for _, rt := range returnsOf(sc) {
							if len(rt.Results) == 0 || !isNilConst(Resolve(rt.Results[0])) {
								allNil = false
							}
						}
						if allNil {
							continue
						}
					}
				}
				if ld, ok := o.V.(*ssa.UnOp); ok {
					// `session := &saml.Session{...}` whose address is also taken: a pointer variable assigned once
					if pv, ok := ld.X.(*ssa.Alloc); ok {
						if iv := initStore(pv); iv != nil {
							for _, o2 := range rg.Origins(RV{V: iv, C: o.C}) {
								o2.Via = append(append([]RB{}, o.Via...), o2.Via...)
								work = append(work, o2)
							}
							continue
						}
					}
				}
				if _, ok := o.V.(*ssa.Alloc); ok {
					origins = append(origins, o)
				} else {
					unknown = true
				}
			}
			if len(origins) == 0 && !unknown {
				continue // only nil reaches this return
			}
			if unknown {
				r.Bad("C19.authn-gate", fmt.Sprintf("%s: session returned at %s", p.FnName(fn), p.InstrPos(ret)), p.InstrPos(ret), "a session value of unknown origin is returned")
				continue
			}
			for _, org := range origins {
				al, alC := org.V.(*ssa.Alloc), org.C
				cons := fmt.Sprintf("%s: session %s returned at %s", p.FnName(fn), p.InstrPos(al), p.InstrPos(ret))
				// the condition of the whole path of this object to this return
				pathCond := fc.AbsCond(blk)
				for _, vb := range org.Via {
					vfc := rg.Ctx(a, vb.C)
					vfc.ensureConds()
					pathCond = B.And(pathCond, vfc.AbsCond(vb.B))
				}
				if pathCond == B.False {
					continue
				}
				implied := func(_ *ssa.BasicBlock, f *bddNode) bool { return B.Implies(pathCond, f) }
				// is this object the target of the sessions Get?
				isStored := false
				if g := gets["sessions"]; g != nil {
					if tgt := ifaceTarget(g.Call.Args[1]); tgt == ssa.Value(al) {
						isStored = true
					}
				}
				if isStored {
					g := gets["sessions"]
					gname := "isnil(" + getFC["sessions"].AP(g) + ")"
					key := keyArgAP(g, getFC["sessions"])
					okKey := strings.Contains(key, `Cookie(c:"session")`) && strings.Contains(key, ".Value")
					var expAtom string
					for _, name := range B.Support(pathCond) {
						ai := a.Atoms[name]
						if ai != nil && ai.Kind == "before" && ai.TT[0] != nil && strings.HasSuffix(ai.TT[0].Base, ".ExpireTime") {
							expAtom = name
						}
					}
					okExp := false
					why := []string{}
					if expAtom != "" && implied(blk, B.Not(B.Var(expAtom))) {
						tt := a.Atoms[expAtom].TT
						// (the comparison may sit in a small predicate - Expired(now, expire) - that is handed the instant)
						_, nowV := throughParams(a.Atoms[expAtom].Ctx, tt[1].BaseV)
						src := valueSources(p, fn, nowV, 0, map[string]bool{})
						if len(src) == 1 && src[0] == "call through saml.TimeNow" && len(tt[0].Coef) == 0 && len(tt[1].Coef) == 0 && tt[0].Const == 0 && tt[1].Const == 0 {
							okExp = true
						} else {
							why = append(why, "the expiry comparison is not ExpireTime against TimeNow() exactly")
						}
					} else {
						why = append(why, "the stored session is returned without (or regardless of) the expiry check")
					}
					okGet := B.HasVar(gname) && implied(blk, B.Var(gname))
					if !okGet {
						why = append(why, "the session is returned although the store lookup failed")
					}
					if !okKey {
						why = append(why, "the store key is not built from the session cookie's value: "+key)
					}
					r.Check(okExp && okGet && okKey, "C19.authn-gate", cons+" (stored session)", p.InstrPos(ret), "store lookup by cookie value succeeded and session not expired", strings.Join(why, "; "))
					continue
				}
				// freshly created session: must be behind the credential check
				why := []string{}
				ok := true
				if cmp == nil {
					ok = false
					why = append(why, "no password comparison on the way to this return")
				} else {
					cname := "isnil(" + cmpFC.AP(cmp) + ")"
					if !B.HasVar(cname) || !implied(blk, B.Var(cname)) {
						ok = false
						why = append(why, "a new session is returned on a path where the password comparison did not succeed: "+firstCube(B, B.And(pathCond, B.Not(B.Var(cname)))))
					}
					hashAP := cmpFC.AP(cmp.Call.Args[0])
					pwAP := cmpFC.AP(cmp.Call.Args[1])
					if !strings.HasSuffix(hashAP, "User.HashedPassword") {
						ok = false
						why = append(why, "compared against "+hashAP+" instead of the stored hash")
					}
					if !strings.Contains(pwAP, `PostForm.Get(c:"password")`) {
						ok = false
						why = append(why, "compared with "+pwAP+" instead of the posted password")
					}
					g := gets["users"]
					if g == nil {
						ok = false
						why = append(why, "the user record is not fetched from the store")
					} else {
						gname := "isnil(" + getFC["users"].AP(g) + ")"
						if !B.HasVar(gname) || !implied(blk, B.Var(gname)) {
							ok = false
							why = append(why, "the session is created although fetching the user failed")
						}
						key := keyArgAP(g, getFC["users"])
						if !strings.Contains(key, `PostForm.Get(c:"user")`) {
							ok = false
							why = append(why, "user fetched under key "+key)
						}
						// the hash compared belongs to the fetched record
						if tgt := ifaceTarget(g.Call.Args[1]); tgt == nil || !strings.HasPrefix(hashAP, getFC["users"].AP(tgt)) {
							ok = false
							why = append(why, "the hash compared does not belong to the fetched user record")
						}
					}
					// no bypass: the only atoms on the path besides the three above must not mention the hash or its length
					for _, name := range B.Support(pathCond) {
						if strings.Contains(name, "HashedPassword") {
							ok = false
							why = append(why, "the decision also depends on "+name+" (a bypass on the stored hash)")
						}
					}
				}
				r.Check(ok, "C19.authn-gate", cons+" (new session)", p.InstrPos(ret), "behind store lookup of the posted user and bcrypt comparison with the posted password", strings.Join(why, "; "))
				// session fields (the literal may sit in a constructor helper handed the user record)
				lfc := rg.Ctx(a, alC)
				for field, sts := range litFields(al.Parent(), modPath, "Session") {
					for _, st := range sts {
						if rootOfAddr(st.Addr) != ssa.Value(al) {
							continue
						}
						ap := lfc.AP(st.Val)
						// a value made by a small constructor of the package (newSessionID() = base64(randomBytes(32)) under a
						// defined string type): named by what the constructor returns
						if _, pv := throughParams(nil, st.Val); pv != nil {
							if c, isC := pv.(*ssa.Call); isC && strings.HasPrefix(ap, "r:") {
								if sc := c.Call.StaticCallee(); sc != nil && p.InLibrary(sc) && inPkg(sc, idpPkgPath) && len(sc.Blocks) > 0 && lfc.depth < lfc.A.MaxDepth {
									if ret := singleReturn(sc); ret != nil && len(ret.Results) == 1 {
										ap = lfc.inlineCtx(sc, c.Call.Args, c).AP(ret.Results[0])
									}
								}
							}
						}
						c2 := fmt.Sprintf("%s: new session field %s", p.FnName(al.Parent()), field)
						okF := strings.HasPrefix(ap, "User.") || strings.Contains(ap, "/User.") || strings.Contains(ap, "randomBytes") || strings.Contains(ap, "TimeNow") || strings.HasPrefix(ap, "c:")
						if field == "ID" || field == "Index" {
							okF = strings.Contains(ap, "randomBytes")
						}
						r.Check(okF, "C19.session-source", c2, p.InstrPos(st), ap, "session field "+field+" is taken from "+ap+" (expected the stored user record / fresh randomness / the clock)")
					}
				}
				// and what is stored under /sessions/<id> is this session, error checked
				for _, pc := range rg.all {
					pfc := rg.Ctx(a, pc)
					for _, b := range pc.fn.Blocks {
						for _, in := range b.Instrs {
							c, okc := in.(*ssa.Call)
							if !okc || storeCallKind(&c.Call) != "Put" {
								continue
							}
							pname := "isnil(" + pfc.AP(c) + ")"
							r.Check(B.HasVar(pname) && implied(blk, B.Var(pname)), "C19.authn-gate", p.FnName(fn)+": new session returned only after it was stored", p.InstrPos(c), "Put == nil", "a session that failed to be stored is still returned")
						}
					}
				}
			}
		}
	}
}

// ifaceTarget: for an interface{} argument made from &x (or from a pointer value), the pointer.
func ifaceTarget(v ssa.Value) ssa.Value {
	if mi, ok := v.(*ssa.MakeInterface); ok {
		return mi.X
	}
	return nil
}

func checkSSOGate(r *Report, p *Prog) {
	for _, name := range []string{"ServeSSO", "ServeIDPInitiated"} {
		fn := p.MustFunc("saml", "IdentityProvider", name)
		a := NewAnalysis(p)
		B := a.B
		fc := a.Ctx(fn)
		fc.ensureConds()
		r.Fn(p.FnName(fn))
		var sess *ssa.Call
		for _, b := range fn.Blocks {
			for _, in := range b.Instrs {
				if c, ok := in.(*ssa.Call); ok && c.Call.IsInvoke() && c.Call.Method.Name() == "GetSession" {
					sess = c
				}
			}
		}
		if sess == nil {
			r.Bad("C19.sso-gate", p.FnName(fn)+": session lookup", p.Pos(fn.Pos()), "the handler never asks the session provider for a session")
			continue
		}
		sname := "isnil(" + fc.AP(sess) + ")"
		// the handler with the helpers it is split into (a shared "make the assertion and write the response" tail)
		rg := NewRegion(p, fn, 2)
		sessRI := RI{sess, rg.top}
		rg.Each(func(x RI) {
			in := x.I
			c, ok := in.(*ssa.Call)
			if !ok {
				return
			}
			isMake := c.Call.IsInvoke() && c.Call.Method.Name() == "MakeAssertion"
			isWrite := c.Call.StaticCallee() != nil && c.Call.StaticCallee().Name() == "WriteResponse"
			if !isMake && !isWrite {
				return
			}
			xfc := rg.Ctx(a, x.C)
			xfc.ensureConds()
			cnd := xfc.AbsCond(in.Block())
			r.Fn(p.FnName(in.Parent()))
			what := "WriteResponse"
			if isMake {
				what = "MakeAssertion"
			}
			cons := fmt.Sprintf("%s: %s only for an authenticated session", p.FnName(fn), what)
			ok2 := B.HasVar(sname) && B.Implies(cnd, B.Not(B.Var(sname)))
			why := "reachable without a non-nil session from the session provider"
			if isMake && ok2 {
				if !rg.IsFrom(RV{V: c.Call.Args[len(c.Call.Args)-1], C: x.C}, sessRI) {
					ok2 = false
					why = "the assertion is made for a session other than the one the provider returned"
				}
			}
			// further gates
			var extra []string
			needNil := func(sub, desc string) {
				found := false
				for _, nm := range B.Support(cnd) {
					if strings.HasPrefix(nm, "isnil(") && strings.Contains(nm, sub) && B.Implies(cnd, B.Var(nm)) {
						found = true
					}
				}
				if !found {
					extra = append(extra, desc)
				}
			}
			if name == "ServeSSO" {
				needNil("NewIdpAuthnRequest#", "request parsed without error")
				needNil("IdpAuthnRequest).Validate#", "request validated")
			} else {
				needNil("GetServiceProvider#", "registered provider found")
				acs := false
				for _, nm := range B.Support(cnd) {
					if strings.HasPrefix(nm, "isnil(") && strings.HasSuffix(nm, ".ACSEndpoint)") && B.Implies(cnd, B.Not(B.Var(nm))) {
						acs = true
					}
				}
				if !acs {
					extra = append(extra, "a POST endpoint was selected")
				}
			}
			if isWrite {
				needNil("MakeAssertion#", "assertion made without error")
			}
			if len(extra) > 0 {
				ok2 = false
				why = "missing gates: " + strings.Join(extra, ", ")
			}
			r.Check(ok2, "C19.sso-gate", cons, p.InstrPos(in), "session != nil and preceding gates passed", why)
		})
	}
	// shortcut launch
	fn := p.MustFunc("samlidp", "Server", "HandleIDPInitiated")
	a := NewAnalysis(p)
	// a helper that fetches the shortcut is part of the handler: its error is the store's error, its result the record
	a.Inline = func(f *ssa.Function) bool {
		return inPkg(f, modPath+"/samlidp") && p.InLibrary(f) && f != fn && (f.Object() == nil || !f.Object().Exported()) && errIndex(f) >= 0
	}
	B := a.B
	fc := a.Ctx(fn)
	fc.ensureConds()
	r.Fn(p.FnName(fn))
	for _, b := range fn.Blocks {
		for _, in := range b.Instrs {
			c, ok := in.(*ssa.Call)
			if !ok || c.Call.StaticCallee() == nil || c.Call.StaticCallee().Name() != "ServeIDPInitiated" {
				continue
			}
			okG := false
			for _, nm := range B.Support(fc.Cond(b)) {
				if strings.HasPrefix(nm, "isnil(r:Get#") && fc.Implied(b, B.Var(nm)) {
					okG = true
				}
			}
			spAP := fc.AP(c.Call.Args[3])
			r.Check(okG && strings.HasSuffix(spAP, "Shortcut.ServiceProviderID"), "C19.sso-gate", p.FnName(fn)+": IdP-initiated launch only for a stored shortcut, towards its service provider", p.InstrPos(in), spAP, "launch reachable although the shortcut lookup failed, or towards "+spAP)
		}
	}
}

// ------------------------------------------------------------------------------------------ one reply

type replyRange struct{ min, max int }

func (a replyRange) add(b replyRange) replyRange { return replyRange{a.min + b.min, a.max + b.max} }
func joinRange(a, b replyRange) replyRange {
	o := a
	if b.min < o.min {
		o.min = b.min
	}
	if b.max > o.max {
		o.max = b.max
	}
	return o
}

type replyAnalysis struct {
	p    *Prog
	memo map[*ssa.Function]*replySummary
	busy map[*ssa.Function]bool
}

type replySummary struct {
	all       replyRange  // over all normal exits
	nilRes    *replyRange // exits returning a nil first result (pointer-returning functions)
	nonNil    *replyRange // exits returning a non-nil first result
	errNil    *replyRange // exits returning a nil error
	errNonNil *replyRange // exits returning a non-nil error
	perExit   map[*ssa.Return]replyRange
}

type condCount struct{ ifNil, ifNonNil replyRange }

func hasWriterParam(fn *ssa.Function) int {
	for i, prm := range fn.Params {
		if types.TypeString(prm.Type(), nil) == "net/http.ResponseWriter" {
			return i
		}
	}
	return -1
}

// writerSlots: addresses whose load is the http.ResponseWriter of the handler: captured variables of that type in a
// function literal, and the spill slot of the writer parameter w once a function literal captures it.
func writerSlots(fn *ssa.Function, w ssa.Value) []ssa.Value {
	var out []ssa.Value
	for _, fv := range fn.FreeVars {
		if pt, ok := fv.Type().(*types.Pointer); ok && types.TypeString(pt.Elem(), nil) == "net/http.ResponseWriter" {
			out = append(out, fv)
		}
	}
	if w != nil && w.Referrers() != nil {
		for _, rf := range *w.Referrers() {
			if st, ok := rf.(*ssa.Store); ok && st.Val == w {
				if al, ok := st.Addr.(*ssa.Alloc); ok && initStore(al) == w {
					out = append(out, al)
				}
			}
		}
	}
	return out
}

// isReplyCall: direct reply actions on the ResponseWriter value w.
func isReplyCall(c *ssa.CallCommon, isW func(ssa.Value) bool) bool {
	if c.IsInvoke() {
		if isW(c.Value) {
			switch c.Method.Name() {
			case "WriteHeader", "Write":
				return true
			}
		}
		return false
	}
	sc := c.StaticCallee()
	if sc == nil {
		return false
	}
	switch sc.String() {
	case "net/http.Error", "net/http.Redirect", "net/http.NotFound":
		return len(c.Args) > 0 && isW(c.Args[0])
	case "io.Copy":
		return len(c.Args) > 0 && isW(c.Args[0])
	case "(*bytes.Buffer).WriteTo", "(*strings.Reader).WriteTo", "(*bytes.Reader).WriteTo":
		return len(c.Args) > 1 && isW(c.Args[1])
	case "(*html/template.Template).Execute", "(*text/template.Template).Execute":
		return len(c.Args) > 1 && isW(c.Args[1])
	case "(*encoding/json.Encoder).Encode", "(*encoding/xml.Encoder).Encode":
		// encoder built from NewEncoder(w)
		if len(c.Args) > 0 {
			if ec, ok := c.Args[0].(*ssa.Call); ok && len(ec.Call.Args) == 1 {
				return isW(ec.Call.Args[0])
			}
		}
	case "fmt.Fprintf", "fmt.Fprint", "fmt.Fprintln":
		return len(c.Args) > 0 && isW(c.Args[0])
	}
	return false
}

func joinPtr(dst **replyRange, rr replyRange) {
	if *dst == nil {
		c := rr
		*dst = &c
		return
	}
	j := joinRange(**dst, rr)
	*dst = &j
}

func (ra *replyAnalysis) summary(fn *ssa.Function) *replySummary {
	if s, ok := ra.memo[fn]; ok {
		return s
	}
	if ra.busy[fn] || len(fn.Blocks) == 0 {
		return &replySummary{}
	}
	ra.busy[fn] = true
	defer delete(ra.busy, fn)
	wi := hasWriterParam(fn)
	var w ssa.Value
	if wi >= 0 {
		w = fn.Params[wi]
	}
	// the writer as a function literal sees it (a captured variable), and as the enclosing function does once the
	// parameter is captured (its spill slot)
	wAddrs := writerSlots(fn, w)
	isW := func(v ssa.Value) bool {
		// the writer kept in a field of an object the handler made for the request (run := &fooRun{w: w, ...}; run.w): in a
		// handler and the steps it is split into there is one response writer, whatever it is read from
		if ld, ok := v.(*ssa.UnOp); ok && ld.Op == token.MUL {
			if _, isField := ld.X.(*ssa.FieldAddr); isField && types.TypeString(ld.Type(), nil) == "net/http.ResponseWriter" {
				return true
			}
		}
		for i := 0; i < 4; i++ {
			if v == w && w != nil {
				return true
			}
			switch x := v.(type) {
			case *ssa.MakeInterface:
				v = x.X
			case *ssa.ChangeInterface:
				v = x.X
			case *ssa.UnOp:
				if x.Op == token.MUL {
					for _, wa := range wAddrs {
						if x.X == wa {
							return true
						}
					}
				}
				return false
			default:
				return false
			}
		}
		return false
	}
	a := NewAnalysis(ra.p)
	fc := a.Ctx(fn)
	fc.ensureConds()
	B := a.B
	// Path-sensitive in a bounded way: the state at a block is a small set of alternatives, each with the condition of the
	// paths it stands for. An alternative whose condition contradicts the edge it would take is dropped (the step that
	// replied with an error set err; the later `if err == nil` blocks are not entered on that path), so the accumulate-
	// then-return style is counted like the early-return style. Alternatives with equal counts are merged.
	type st struct {
		r       replyRange
		pending map[ssa.Value]condCount
		c       *bddNode
	}
	in := map[*ssa.BasicBlock][]*st{}
	sum := &replySummary{perExit: map[*ssa.Return]replyRange{}}
	clone := func(s *st) *st {
		o := &st{r: s.r, pending: map[ssa.Value]condCount{}, c: s.c}
		for k, v := range s.pending {
			o.pending[k] = v
		}
		return o
	}
	samePending := func(x, y map[ssa.Value]condCount) bool {
		if len(x) != len(y) {
			return false
		}
		for k, v := range x {
			if w, ok := y[k]; !ok || w != v {
				return false
			}
		}
		return true
	}
	addState := func(b *ssa.BasicBlock, s *st) {
		for _, e := range in[b] {
			if e.r == s.r && samePending(e.pending, s.pending) {
				e.c = B.Or(e.c, s.c)
				return
			}
		}
		in[b] = append(in[b], s)
		if len(in[b]) > 12 {
			// too many alternatives: fall back to one joined state
			j := clone(in[b][0])
			for _, e := range in[b][1:] {
				j.r = joinRange(j.r, e.r)
				j.c = B.Or(j.c, e.c)
				for k, v := range e.pending {
					j.pending[k] = v
				}
			}
			in[b] = []*st{j}
		}
	}
	one, zero := replyRange{1, 1}, replyRange{0, 0}
	splitNil, splitNon := map[*ssa.Return]replyRange{}, map[*ssa.Return]replyRange{}
	splitErrNil, splitErrNon := map[*ssa.Return]replyRange{}, map[*ssa.Return]replyRange{}
	kindNil, kindNon := map[*ssa.Return]*replyRange{}, map[*ssa.Return]*replyRange{}
	kindErrNil, kindErrNon := map[*ssa.Return]*replyRange{}, map[*ssa.Return]*replyRange{}
	joinInto := func(m map[*ssa.Return]replyRange, ret *ssa.Return, rr replyRange) {
		if old, ok := m[ret]; ok {
			m[ret] = joinRange(old, rr)
		} else {
			m[ret] = rr
		}
	}
	joinKind := func(m map[*ssa.Return]*replyRange, ret *ssa.Return, rr replyRange) {
		if old, ok := m[ret]; ok {
			j := joinRange(*old, rr)
			m[ret] = &j
		} else {
			c := rr
			m[ret] = &c
		}
	}
	alwaysNil := map[ssa.Value]bool{}
	in[fn.Blocks[0]] = []*st{{pending: map[ssa.Value]condCount{}, c: B.True}}
	// a conditional count whose condition the path has settled (the error it depends on was tested through a result
	// variable, or the paths on which it is nil have been left)
	settle := func(s *st) {
		for k, pc := range s.pending {
			name := "isnil(" + fc.AP(k) + ")"
			if !B.HasVar(name) {
				continue
			}
			if B.Implies(s.c, B.Var(name)) {
				s.r = s.r.add(pc.ifNil)
				delete(s.pending, k)
			} else if B.Implies(s.c, B.Not(B.Var(name))) {
				s.r = s.r.add(pc.ifNonNil)
				delete(s.pending, k)
			}
		}
	}
	for _, b := range fc.rpo {
		for _, s := range in[b] {
			cur := clone(s)
			for _, ins := range b.Instrs {
				c, ok := ins.(*ssa.Call)
				if !ok {
					continue
				}
				cc := &c.Call
				if isReplyCall(cc, isW) {
					// a reply action that reports an error has not (completely) replied: it counts on its nil edge only
					if ev := errResultValue(c); ev != nil && len(*ev.Referrers()) > 0 {
						cur.pending[ev] = condCount{ifNil: one, ifNonNil: zero}
					} else {
						cur.r = cur.r.add(one)
					}
					continue
				}
				if sc := cc.StaticCallee(); sc != nil && len(sc.Blocks) > 0 && ra.p.InModule(sc) && sc.Signature.Results().Len() >= 1 {
					if _, isPtr := sc.Signature.Results().At(0).Type().Underlying().(*types.Pointer); isPtr {
						allNil := true
						for _, rt := range returnsOf(sc) {
							if !isNilConst(Resolve(rt.Results[0])) {
								allNil = false
							}
						}
						if allNil {
							alwaysNil[c] = true
						}
					}
				}
				passes := false
				for _, ar := range cc.Args {
					if isW(ar) {
						passes = true
					}
				}
				if cc.IsInvoke() && isW(cc.Value) {
					passes = false // Header() etc.
				}
				if sc := cc.StaticCallee(); sc != nil && sc.Parent() != nil && len(writerSlots(sc, nil)) > 0 {
					passes = true // a function literal that captured the writer
				}
				if sc := cc.StaticCallee(); sc != nil && !passes && ra.p.InModule(sc) && carriesWriter(sc) {
					passes = true // a step method of an object that holds the writer
				}
				if !passes {
					continue
				}
				var cs *replySummary
				if cc.IsInvoke() {
					if cc.Method.Name() == "GetSession" {
						cs = &replySummary{all: replyRange{0, 1}, nilRes: &one, nonNil: &zero}
					} else if cc.Method.Name() == "ServeHTTP" {
						cs = &replySummary{all: one}
					}
				} else if sc := cc.StaticCallee(); sc != nil {
					if ra.p.InModule(sc) {
						cs = ra.summary(sc)
					} else {
						continue
					}
				} else {
					// call through a function value (hook such as OnError): contract = replies once
					cs = &replySummary{all: one}
				}
				if cs == nil {
					continue
				}
				if cs.nilRes != nil && cs.nonNil != nil {
					cur.pending[c] = condCount{ifNil: *cs.nilRes, ifNonNil: *cs.nonNil}
					continue
				}
				// a callee whose pointer result is nil on every exit (or on none): an exit that forwards it is of that kind
				if cs.nilRes != nil && cs.nonNil == nil {
					alwaysNil[c] = true
				}
				if cs.errNil != nil && cs.errNonNil != nil {
					if ev := errResultValue(c); ev != nil && len(*ev.Referrers()) > 0 {
						cur.pending[ev] = condCount{ifNil: *cs.errNil, ifNonNil: *cs.errNonNil}
						continue
					}
				}
				cur.r = cur.r.add(cs.all)
			}
			// exits
			if len(b.Instrs) > 0 {
				if ret, ok := b.Instrs[len(b.Instrs)-1].(*ssa.Return); ok && b != fn.Recover {
					settle(cur)
					// a count that still depends on an error or a result that the exit hands on through a result variable
					// (err = step(); ...; return err): the exit is read once for each way that value can be
					exits := []*st{cur}
					if len(ret.Results) >= 1 {
						direct := map[ssa.Value]bool{}
						for _, rv := range ret.Results {
							direct[Resolve(rv)] = true
						}
						for k, pc := range cur.pending {
							if direct[k] {
								continue // forwarded as it is: the two kinds of exit below
							}
							nn := fc.NonNil(k)
							if nn == B.True || nn == B.False {
								continue
							}
							var next []*st
							for _, e := range exits {
								if _, ok := e.pending[k]; !ok {
									next = append(next, e)
									continue
								}
								if c := B.And(e.c, B.Not(nn)); c != B.False {
									n := clone(e)
									n.c = c
									n.r = n.r.add(pc.ifNil)
									delete(n.pending, k)
									next = append(next, n)
								}
								if c := B.And(e.c, nn); c != B.False {
									n := clone(e)
									n.c = c
									n.r = n.r.add(pc.ifNonNil)
									delete(n.pending, k)
									next = append(next, n)
								}
							}
							exits = next
						}
					}
					for _, cur := range exits {
						rr := cur.r
						// a pointer result forwarded from a callee whose reply count depends on whether it returned nil: this exit
						// stands for two kinds of exit
						var fwd ssa.Value
						if len(ret.Results) >= 1 {
							if rv := Resolve(ret.Results[0]); rv != nil {
								if _, ok := cur.pending[rv]; ok {
									if _, isPtr := rv.Type().Underlying().(*types.Pointer); isPtr {
										fwd = rv
									}
								}
							}
						}
						// an error result forwarded from a reply action (or a callee) whose count depends on that error: likewise
						var fwdErr ssa.Value
						if ei := errIndex(fn); ei >= 0 && ei < len(ret.Results) && fwd == nil {
							if ev := Resolve(ret.Results[ei]); ev != nil {
								if _, ok := cur.pending[ev]; ok {
									fwdErr = ev
								}
							}
						}
						for k, pc := range cur.pending {
							if k == fwd || k == fwdErr {
								continue
							}
							rr = rr.add(joinRange(pc.ifNil, pc.ifNonNil))
						}
						if fwdErr != nil {
							pc := cur.pending[fwdErr]
							joinInto(splitErrNil, ret, rr.add(pc.ifNil))
							joinInto(splitErrNon, ret, rr.add(pc.ifNonNil))
							rr = rr.add(joinRange(pc.ifNil, pc.ifNonNil))
						}
						if fwd != nil {
							pc := cur.pending[fwd]
							joinInto(splitNil, ret, rr.add(pc.ifNil))
							joinInto(splitNon, ret, rr.add(pc.ifNonNil))
							rr = rr.add(joinRange(pc.ifNil, pc.ifNonNil))
						}
						joinInto(sum.perExit, ret, rr)
						// the kind of exit this alternative stands for, when a result variable is returned
						if fwd == nil && len(ret.Results) >= 1 {
							if _, isPtr := ret.Results[0].Type().Underlying().(*types.Pointer); isPtr {
								rv := Resolve(ret.Results[0])
								canNil, canNon := resultNilness(fc, cur.c, rv, alwaysNil, 0)
								if canNil {
									joinKind(kindNil, ret, rr)
								}
								if canNon {
									joinKind(kindNon, ret, rr)
								}
							}
						}
						if ei := errIndex(fn); fwdErr == nil && ei >= 0 && ei < len(ret.Results) {
							ev := Resolve(ret.Results[ei])
							nn := fc.NonNil(ev)
							switch {
							case isNilConst(ev) || B.Implies(cur.c, B.Not(nn)):
								joinKind(kindErrNil, ret, rr)
							case nn == B.True || B.Implies(cur.c, nn):
								joinKind(kindErrNon, ret, rr)
							default:
								joinKind(kindErrNil, ret, rr)
								joinKind(kindErrNon, ret, rr)
							}
						}
					}
				}
			}
			for si, succ := range b.Succs {
				if isBackEdge(b, succ) {
					continue
				}
				ns := clone(cur)
				if !fc.inLoop(b) && !fc.inLoop(succ) {
					ns.c = B.And(cur.c, fc.edgeCond(b, succ))
					if ns.c == B.False {
						continue // this alternative does not take the edge
					}
				}
				if iff, ok := b.Instrs[len(b.Instrs)-1].(*ssa.If); ok {
					if bo, ok := iff.Cond.(*ssa.BinOp); ok && (bo.Op == token.EQL || bo.Op == token.NEQ) {
						var pv ssa.Value
						if isNilConst(bo.Y) {
							pv = bo.X
						} else if isNilConst(bo.X) {
							pv = bo.Y
						}
						if pc, ok := ns.pending[pv]; ok && pv != nil {
							isNilEdge := (bo.Op == token.EQL) == (si == 0)
							if isNilEdge {
								ns.r = ns.r.add(pc.ifNil)
							} else {
								ns.r = ns.r.add(pc.ifNonNil)
							}
							delete(ns.pending, pv)
						}
					}
				}
				settle(ns)
				addState(succ, ns)
			}
		}
	}
	first := true
	ei := errIndex(fn)
	for ret, rr := range sum.perExit {
		if first {
			sum.all = rr
			first = false
		} else {
			sum.all = joinRange(sum.all, rr)
		}
		if sn, ok := splitNil[ret]; ok {
			joinPtr(&sum.nilRes, sn)
			joinPtr(&sum.nonNil, splitNon[ret])
		}
		if k := kindNil[ret]; k != nil {
			joinPtr(&sum.nilRes, *k)
		}
		if k := kindNon[ret]; k != nil {
			joinPtr(&sum.nonNil, *k)
		}
		if sn, ok := splitErrNil[ret]; ok {
			joinPtr(&sum.errNil, sn)
			joinPtr(&sum.errNonNil, splitErrNon[ret])
		}
		if k := kindErrNil[ret]; k != nil {
			joinPtr(&sum.errNil, *k)
		}
		if k := kindErrNon[ret]; k != nil {
			joinPtr(&sum.errNonNil, *k)
		}
		_ = ei
	}
	if os.Getenv("SAMLVERIF_DEBUG") != "" {
		d := func(x *replyRange) string {
			if x == nil {
				return "-"
			}
			return fmt.Sprintf("%d..%d", x.min, x.max)
		}
		fmt.Printf("DEBUG reply %s all=%d..%d nil=%s non=%s errNil=%s errNon=%s\n", ra.p.FnName(fn), sum.all.min, sum.all.max, d(sum.nilRes), d(sum.nonNil), d(sum.errNil), d(sum.errNonNil))
		for ret, rr := range sum.perExit {
			fmt.Printf("DEBUG   exit %s %d..%d kindNil=%s kindNon=%s\n", ra.p.InstrPos(ret), rr.min, rr.max, d(kindNil[ret]), d(kindNon[ret]))
		}
	}
	ra.memo[fn] = sum
	return sum
}

func errResultValue(c *ssa.Call) ssa.Value {
	res := c.Call.Signature().Results()
	if res.Len() == 1 && types.TypeString(res.At(0).Type(), nil) == "error" {
		return c
	}
	if res.Len() == 2 && types.TypeString(res.At(1).Type(), nil) == "error" {
		for _, rf := range *c.Referrers() {
			if ex, ok := rf.(*ssa.Extract); ok && ex.Index == 1 {
				return ex
			}
		}
	}
	return nil
}

func checkOneReply(r *Report, p *Prog) {
	ra := &replyAnalysis{p: p, memo: map[*ssa.Function]*replySummary{}, busy: map[*ssa.Function]bool{}}
	var handlers []*ssa.Function
	for _, fn := range p.modFns {
		if !p.InLibrary(fn) || !isHandlerShaped(fn) {
			continue
		}
		if !(inPkg(fn, idpPkgPath) || (inPkg(fn, modPath) && fn.Signature.Recv() != nil && typeIs(fn.Signature.Recv().Type(), modPath, "IdentityProvider"))) {
			continue
		}
		// GetSession has its own contract
		if fn.Name() == "GetSession" {
			continue
		}
		// helpers with extra parameters that are not top-level handlers are still required to reply once if they
		// are registered or exported handlers: restrict to func(w, r) and the IdP's exported Serve* methods
		if fn.Signature.Params().Len() != 2 && !strings.HasPrefix(fn.Name(), "Serve") {
			continue
		}
		handlers = append(handlers, fn)
	}
	sort.Slice(handlers, func(i, j int) bool { return p.FnName(handlers[i]) < p.FnName(handlers[j]) })
	for _, fn := range handlers {
		r.Fn(p.FnName(fn))
		s := ra.summary(fn)
		var exits []*ssa.Return
		for ret := range s.perExit {
			exits = append(exits, ret)
		}
		sort.Slice(exits, func(i, j int) bool { return exits[i].Pos() < exits[j].Pos() })
		bad := false
		for _, ret := range exits {
			rr := s.perExit[ret]
			if rr.min != 1 || rr.max != 1 {
				bad = true
				r.Bad("C19.one-reply", fmt.Sprintf("%s: exactly one reply on the paths to the return at %s", p.FnName(fn), p.InstrPos(ret)), p.InstrPos(ret),
					fmt.Sprintf("between %d and %d reply actions reach this return", rr.min, rr.max))
			}
		}
		if !bad {
			r.OK("C19.one-reply", fmt.Sprintf("%s: exactly one reply on every path", p.FnName(fn)), p.Pos(fn.Pos()), fmt.Sprintf("%d exits, each reached with exactly one reply action", len(exits)))
		}
	}
	// the bundled GetSession contract
	gs := p.MustFunc("samlidp", "Server", "GetSession")
	s := ra.summary(gs)
	r.Fn(p.FnName(gs))
	okNil := s.nilRes != nil && s.nilRes.min == 1 && s.nilRes.max == 1
	okNon := s.nonNil != nil && s.nonNil.min == 0 && s.nonNil.max == 0
	d := func(x *replyRange) string {
		if x == nil {
			return "no such exit"
		}
		return fmt.Sprintf("%d..%d", x.min, x.max)
	}
	r.Check(okNil, "C19.one-reply", p.FnName(gs)+": returning nil it has replied exactly once", p.Pos(gs.Pos()), d(s.nilRes), "replies on nil-returning paths: "+d(s.nilRes))
	r.Check(okNon, "C19.one-reply", p.FnName(gs)+": returning a session it has not replied", p.Pos(gs.Pos()), d(s.nonNil), "replies on session-returning paths: "+d(s.nonNil))
}

func checkHash(r *Report, p *Prog) {
	n := 0
	for _, fn := range p.modFns {
		if !p.InLibrary(fn) || !inPkg(fn, idpPkgPath) {
			continue
		}
		a := NewAnalysis(p)
		fc := a.Ctx(fn)
		for _, b := range fn.Blocks {
			for _, in := range b.Instrs {
				fa, ok := in.(*ssa.FieldAddr)
				if !ok || !typeIs(fa.X.Type(), idpPkgPath, "User") || fieldName(fa.X.Type(), fa.Field) != "HashedPassword" {
					continue
				}
				for _, rf := range *fa.Referrers() {
					switch x := rf.(type) {
					case *ssa.Store:
						continue // assignment to the field
					case *ssa.UnOp:
						// (the hash under a defined type - type passwordHash []byte - is still the hash: its uses count)
						uses := append([]ssa.Instruction{}, *x.Referrers()...)
						isHash := map[ssa.Value]bool{x: true}
						for k := 0; k < len(uses) && k < 64; k++ {
							if ct, ok := uses[k].(*ssa.ChangeType); ok && ct.Referrers() != nil {
								isHash[ct] = true
								uses = append(uses, *ct.Referrers()...)
							}
						}
						for _, use := range uses {
							if _, isCT := use.(*ssa.ChangeType); isCT {
								continue
							}
							n++
							cons := fmt.Sprintf("%s: use of the stored password hash", p.FnName(fn))
							switch y := use.(type) {
							case *ssa.Call:
								if calleeIs(y, "golang.org/x/crypto/bcrypt.CompareHashAndPassword") && isHash[y.Call.Args[0]] {
									r.OK("C19.hash", cons+" (credential check)", p.InstrPos(use), "first argument of CompareHashAndPassword")
									continue
								}
								// ... or of an unexported helper of the package that uses it for nothing but that check
								if sc := y.Call.StaticCallee(); sc != nil && p.InLibrary(sc) && inPkg(sc, idpPkgPath) && len(sc.Blocks) > 0 {
									bad := ""
									for i, a := range y.Call.Args {
										if isHash[a] && i < len(sc.Params) {
											bad = firstNonEmpty(bad, hashParamMisuse(p, sc, sc.Params[i], 0))
										}
									}
									if bad == "" {
										r.OK("C19.hash", cons+" (credential check in "+shortFn(sc)+")", p.InstrPos(use), "the helper hands it only to CompareHashAndPassword")
										continue
									}
									r.Bad("C19.hash", cons, p.InstrPos(use), "the hash is passed to "+calleeName(&y.Call)+", where "+bad)
									continue
								}
								r.Bad("C19.hash", cons, p.InstrPos(use), "the hash is passed to "+calleeName(&y.Call))
							case *ssa.Store:
								if fa2, ok := y.Addr.(*ssa.FieldAddr); ok && fieldName(fa2.X.Type(), fa2.Field) == "HashedPassword" && typeIs(fa2.X.Type(), idpPkgPath, "User") {
									r.OK("C19.hash", cons+" (kept on update)", p.InstrPos(use), "copied into the record being stored")
									continue
								}
								r.Bad("C19.hash", cons, p.InstrPos(use), "the hash is copied to "+fc.AP(y.Addr))
							case *ssa.DebugRef:
							default:
								r.Bad("C19.hash", cons, p.InstrPos(use), "the hash flows into "+use.String())
							}
						}
					}
				}
			}
		}
		// error replies carry a constant status text only (no error detail, which may quote a stored record)
		for _, b := range fn.Blocks {
			for _, in := range b.Instrs {
				c, ok := in.(*ssa.Call)
				if !ok || !calleeIs(c, "net/http.Error") {
					continue
				}
				n++
				msg := c.Call.Args[1]
				okMsg := false
				if _, isC := msg.(*ssa.Const); isC {
					okMsg = true
				}
				if mc, isCall := msg.(*ssa.Call); isCall && calleeIs(mc, "net/http.StatusText") {
					okMsg = true
				}
				// a package-level text computed once by the package initialiser from a status text or a constant and never
				// written again (var internalServerErrorText = http.StatusText(500))
				if ld, isLd := msg.(*ssa.UnOp); isLd && ld.Op == token.MUL {
					if g, isG := ld.X.(*ssa.Global); isG && constantTextGlobal(p, g) {
						okMsg = true
					}
				}
				r.Check(okMsg, "C19.hash", fmt.Sprintf("%s: error reply body is a constant status text [%s]", p.FnName(fn), p.InstrPos(in)), p.InstrPos(in), "http.StatusText(...) or a constant", "the error reply body is "+fc.AP(msg)+": error detail (which can quote a stored record, including its password hash) is sent to the client")
			}
		}
		// a User record is serialised or formatted only (a) as the value handed to Store.Put or (b) after its hash was cleared
		for _, b := range fn.Blocks {
			for _, in := range b.Instrs {
				c, ok := in.(*ssa.Call)
				if !ok || c.Call.StaticCallee() == nil {
					continue
				}
				nm := c.Call.StaticCallee().String()
				isFmt := strings.HasPrefix(nm, "fmt.") || strings.HasPrefix(nm, "(*log.Logger).") || strings.HasPrefix(nm, "log.")
				isMarshal := nm == "encoding/json.Marshal" || nm == "encoding/json.MarshalIndent" || nm == "encoding/xml.Marshal"
				if !isFmt && !isMarshal {
					continue
				}
				var operands []ssa.Value
				for _, a := range c.Call.Args {
					operands = append(operands, a)
				}
				if isFmt {
					operands = append(operands, varargValues(c)...)
				}
				for _, op := range operands {
					v := op
					if mi, ok := v.(*ssa.MakeInterface); ok {
						v = mi.X
					}
					if !typeIs(v.Type(), idpPkgPath, "User") {
						continue
					}
					n++
					obj := rootOfAddr(v)
					cleared := false
					for _, bb := range fn.Blocks {
						for _, i2 := range bb.Instrs {
							st, ok := i2.(*ssa.Store)
							if !ok || !isNilConst(st.Val) {
								continue
							}
							if fa, ok := st.Addr.(*ssa.FieldAddr); ok && fieldName(fa.X.Type(), fa.Field) == "HashedPassword" && rootOfAddr(fa.X) == obj {
								if bb == b && instrBefore(bb, i2, in) || bb != b && bb.Dominates(b) {
									cleared = true
								}
							}
						}
					}
					r.Check(cleared, "C19.hash", fmt.Sprintf("%s: a user record is rendered by %s only after its hash was cleared", p.FnName(fn), shortFn(c.Call.StaticCallee())), p.InstrPos(in), "HashedPassword = nil dominates", "the user record, stored password hash included, is rendered into a string/log line by "+shortFn(c.Call.StaticCallee())+" without clearing the hash first")
				}
			}
		}
		// every Encode of a User value to a response is preceded by clearing the hash of that object
		for _, b := range fn.Blocks {
			for _, in := range b.Instrs {
				c, ok := in.(*ssa.Call)
				if !ok || !(calleeIs(c, "(*encoding/json.Encoder).Encode") || calleeIs(c, "(*encoding/xml.Encoder).Encode")) {
					continue
				}
				mi, ok := c.Call.Args[1].(*ssa.MakeInterface)
				if !ok || !typeIs(mi.X.Type(), idpPkgPath, "User") {
					continue
				}
				n++
				obj := rootOfAddr(mi.X)
				cleared := false
				for _, bb := range fn.Blocks {
					for _, i2 := range bb.Instrs {
						st, ok := i2.(*ssa.Store)
						if !ok || !isNilConst(st.Val) {
							continue
						}
						if fa, ok := st.Addr.(*ssa.FieldAddr); ok && fieldName(fa.X.Type(), fa.Field) == "HashedPassword" && rootOfAddr(fa.X) == obj {
							if bb == b && instrBefore(bb, i2, in) || bb != b && bb.Dominates(b) {
								cleared = true
							}
						}
					}
				}
				r.Check(cleared, "C19.hash", p.FnName(fn)+": user record encoded to the response without its hash", p.InstrPos(in), "HashedPassword = nil dominates the Encode", "a user record is written to the response with its stored password hash")
			}
		}
	}
	if n == 0 {
		r.Undecided("C19.hash", "uses of User.HashedPassword", "-", "none found")
	}
}

func instrBefore(b *ssa.BasicBlock, x, y ssa.Instruction) bool {
	for _, in := range b.Instrs {
		if in == x {
			return true
		}
		if in == y {
			return false
		}
	}
	return false
}

// checkKeyAgreement: C19.keys. The registry map and the backing store are written, read and deleted under the same key
// expressions: (a) every update of and delete from the service registry uses the same field path of the service record
// as key and the lookup is by the plain requested ID; (b) within one handler all item-level store calls use one key
// expression, and item keys are the collection's List prefix followed by one %s.
func checkKeyAgreement(r *Report, p *Prog) {
	rule := "C19.keys"
	idpPkg := modPath + "/samlidp"
	var fns []*ssa.Function
	for _, fn := range p.modFns {
		if inPkg(fn, idpPkg) && p.InLibrary(fn) {
			fns = append(fns, fn)
		}
	}
	trimRoot := func(ap string) string {
		// a root that is local to a helper activation carries the activation's prefix ("Fn/helper@site/")
		if i := strings.LastIndex(ap, "/"); i >= 0 && !strings.Contains(ap, `"`) {
			ap = ap[i+1:]
		}
		if i := strings.Index(ap, "."); i >= 0 {
			return ap[i:]
		}
		return ap
	}
	type site struct{ kind, key, pos, fn string }
	var reg []site
	prefixes := map[string]bool{}
	type skey struct{ format, arg string }
	hasCallers := func(fn *ssa.Function) bool {
		if fn.Object() != nil && fn.Object().Exported() {
			return false
		}
		for _, cs := range p.CallersOf(fn) {
			if inPkg(cs.Caller, idpPkg) {
				return true
			}
		}
		return false
	}
	paramRooted := func(fn *ssa.Function, v ssa.Value) bool {
		root := rootOfAddr(v)
		if ld, ok := root.(*ssa.UnOp); ok {
			root = rootOfAddr(ld.X)
		}
		prm, ok := root.(*ssa.Parameter)
		return ok && prm.Parent() == fn
	}
	seenReg := map[string]bool{}
	for _, fn := range fns {
		a := NewAnalysis(p)
		// the handler with the helpers it is split into; a helper that is handed its key is judged through its callers
		rg := NewRegion(p, fn, 2)
		helper := hasCallers(fn)
		perFn := map[string]map[skey]string{} // collection prefix -> key expr -> position
		perFnInstr := map[string]map[skey][]RI{}
		rg.Each(func(xi RI) {
			in := xi.I
			fc := rg.Ctx(a, xi.C)
			fc.ensureConds()
			if fc.AbsCond(in.Block()) == a.B.False {
				return // not executed in this activation (e.g. the "replaces another record" branch of a helper called with nil)
			}
			switch x := in.(type) {
			case *ssa.MapUpdate:
				if strings.HasSuffix(addrPath(x.Map), "Server.serviceProviders") || strings.HasSuffix(fc.AP(x.Map), "Server.serviceProviders") {
					if xi.C == rg.top && helper && paramRooted(fn, x.Key) {
						return
					}
					id := "update|" + p.InstrPos(in) + "|" + trimRoot(fc.AP(x.Key))
					if !seenReg[id] {
						seenReg[id] = true
						reg = append(reg, site{"update", trimRoot(fc.AP(x.Key)), p.InstrPos(in), p.FnName(in.Parent())})
					}
				}
			case *ssa.Call:
				if bi, ok := x.Call.Value.(*ssa.Builtin); ok && bi.Name() == "delete" && len(x.Call.Args) == 2 {
					if strings.HasSuffix(fc.AP(x.Call.Args[0]), "Server.serviceProviders") {
						if xi.C == rg.top && helper && paramRooted(fn, x.Call.Args[1]) {
							return
						}
						id := "delete|" + p.InstrPos(in) + "|" + trimRoot(fc.AP(x.Call.Args[1]))
						if !seenReg[id] {
							seenReg[id] = true
							reg = append(reg, site{"delete", trimRoot(fc.AP(x.Call.Args[1])), p.InstrPos(in), p.FnName(in.Parent())})
						}
					}
					return
				}
				kind := storeCallKind(&x.Call)
				if kind == "" || len(x.Call.Args) == 0 {
					return
				}
				keyArg := x.Call.Args[0] // interface call: the receiver is not among the arguments
				if kind == "List" {
					if pf, ok := constStr(keyArg); ok {
						prefixes[pf] = true
					}
					return
				}
				if xi.C == rg.top && helper && paramRooted(fn, keyArg) {
					return // the key is handed in: judged where it is built
				}
				var k skey
				k.format, k.arg = "?", fc.AP(keyArg)
				for _, o := range rg.Origins(RV{V: keyArg, C: xi.C}) {
					k.format, k.arg = storeKeyOf(rg.Ctx(a, o.C), o.V, 0)
					// a field of a local record names the field, not the moment it is read: the datum is what was last
					// stored there (the body's name before `user.Name = r.PathValue("id")`, the path's name after it)
					if av := storeKeyArg(o.V); av != nil {
						k.arg = keyDatumAt(rg.Ctx(a, o.C), av, k.arg)
					}
				}
				coll := strings.TrimSuffix(k.format, "%s")
				if perFn[coll] == nil {
					perFn[coll] = map[skey]string{}
				}
				perFn[coll][k] = p.InstrPos(in)
				if perFnInstr[coll] == nil {
					perFnInstr[coll] = map[skey][]RI{}
				}
				perFnInstr[coll][k] = append(perFnInstr[coll][k], xi)
				// the item addressed is the item the client named: what fills the %s is a datum of the request or of a
				// stored record as it is (path element, cookie value, form value, record field, listed name) - on every
				// path, with no function applied to it (an unescape, a trim, a case fold make DELETE /x/{id} answer for
				// another key than the one GET, PUT and the login path use)
				for _, o := range rg.Origins(RV{V: keyArg, C: xi.C}) {
					av := storeKeyArg(o.V)
					if av == nil {
						continue
					}
					bad := ""
					for _, lf := range rg.Origins(RV{V: av, C: o.C}) {
						if os.Getenv("SAMLVERIF_DEBUG") != "" {
							fmt.Printf("DEBUG storekey %s %s %q leaf %T %s\n", p.FnName(in.Parent()), kind, k.format, lf.V, rg.Ctx(a, lf.C).AP(lf.V))
						}
						if why := keyDatumTransformed(lf.V); why != "" {
							bad = why
						}
					}
					r.Check(bad == "", rule, fmt.Sprintf("%s: %s addresses the item the request names", p.FnName(in.Parent()), kind), p.InstrPos(in), "the key argument is a request or record datum as it is", "the name that fills the store key is "+bad+": this handler addresses another record than the handlers and the login path that use the name as it is (a delete that answers 204 leaves the record in place)")
				}
				okF := strings.HasSuffix(k.format, "/%s") && strings.Count(k.format, "%") == 1
				r.Check(okF, rule, fmt.Sprintf("%s: %s key %q", p.FnName(in.Parent()), kind, k.format), p.InstrPos(in), "collection prefix + one %s", "the store key is not a collection prefix followed by exactly one %s")
			}
		})
		for coll, ks := range perFn {
			var descr []string
			for k, pos := range ks {
				descr = append(descr, fmt.Sprintf("%s(%s) at %s", k.format, k.arg, pos))
			}
			sort.Strings(descr)
			// different keys matter only when both calls can happen in one execution
			conflict := false
			for k1, is1 := range perFnInstr[coll] {
				for k2, is2 := range perFnInstr[coll] {
					if k1 == k2 {
						continue
					}
					for _, i1 := range is1 {
						for _, i2 := range is2 {
							p1, p2 := rg.SiteIn(rg.top, i1), rg.SiteIn(rg.top, i2)
							if p1 == nil || p2 == nil || p1.Block() == p2.Block() || blockReaches(p1.Block(), p2.Block()) {
								conflict = true
							}
						}
					}
				}
			}
			r.Check(len(ks) == 1 || !conflict, rule, fmt.Sprintf("%s: one key expression for %s", p.FnName(fn), coll), p.Pos(fn.Pos()), descr[0], "the handler addresses the same collection under different keys: "+strings.Join(descr, "; ")+" (what is read, written and deleted are not the same record)")
		}
	}
	// an overwrite forgets the replaced record's registry key: a handler that stores a record with Store.Put and registers
	// it in the registry also removes the entry of the record it replaced (loaded with Store.Get under the same key).
	// Stated over the handler with its helpers: the registry update/delete may sit in register/unregister helpers.
	for _, fn := range fns {
		if hasCallers(fn) {
			continue // judged as part of its callers
		}
		a := NewAnalysis(p)
		rg := NewRegion(p, fn, 2)
		var puts, gets, deletes, updates []RI
		nUpdates := 0
		rg.Each(func(x RI) {
			xfc := rg.Ctx(a, x.C)
			xfc.ensureConds()
			if xfc.AbsCond(x.I.Block()) == a.B.False {
				return
			}
			switch y := x.I.(type) {
			case *ssa.MapUpdate:
				if strings.HasSuffix(xfc.AP(y.Map), "Server.serviceProviders") {
					nUpdates++
					updates = append(updates, x)
				}
			case *ssa.Call:
				if bi, ok := y.Call.Value.(*ssa.Builtin); ok && bi.Name() == "delete" && len(y.Call.Args) == 2 && strings.HasSuffix(xfc.AP(y.Call.Args[0]), "Server.serviceProviders") {
					deletes = append(deletes, x)
				}
				switch storeCallKind(&y.Call) {
				case "Put":
					puts = append(puts, x)
				case "Get":
					gets = append(gets, x)
				}
			}
		})
		if len(puts) == 0 || nUpdates == 0 {
			continue
		}
		keyOf := func(x RI) string {
			c := x.I.(*ssa.Call)
			f, arg := "?", rg.Ctx(a, x.C).AP(c.Call.Args[0])
			for _, o := range rg.Origins(RV{V: c.Call.Args[0], C: x.C}) {
				f, arg = storeKeyOf(rg.Ctx(a, o.C), o.V, 0)
			}
			if f == "?" {
				return arg
			}
			return f + "(" + arg + ")"
		}
		// a record that was stored is registered: the registry update depends on nothing but what the Store.Put before it
		// depended on, and that Put's own success (a registration that is skipped when the entity ID is already present
		// leaves the old endpoints and certificate in force until restart, while a restarted server loads the new ones)
		for _, up := range updates {
			ufc := rg.Ctx(a, up.C)
			ufc.ensureConds()
			ucond := ufc.AbsCond(up.I.Block())
			for _, put := range puts {
				if !rg.Before(put, up) {
					continue
				}
				pfc := rg.Ctx(a, put.C)
				pfc.ensureConds()
				known := map[string]bool{}
				for _, nm := range a.B.Support(pfc.AbsCond(put.I.Block())) {
					known[nm] = true
				}
				var foreign []string
				for _, nm := range a.B.Support(ucond) {
					if !known[nm] && !strings.Contains(nm, "Put#") {
						foreign = append(foreign, nm)
					}
				}
				sort.Strings(foreign)
				r.Check(len(foreign) == 0, rule, fmt.Sprintf("%s: a stored service is registered whatever the registry held", p.FnName(fn)), p.InstrPos(up.I), "the registry update follows the successful Store.Put under no further condition", "the record is stored, but it is entered in the registry only under "+strings.Join(foreign, ", ")+": when the update is skipped the running server keeps answering with the endpoints and certificate registered before, and a server restarted over the same store with the new ones")
			}
		}
		for _, put := range puts {
			okF := false
			for _, g := range gets {
				if keyOf(g) != keyOf(put) || !rg.Before(g, put) {
					continue
				}
				target := g.I.(*ssa.Call).Call.Args[1]
				if mi, ok := target.(*ssa.MakeInterface); ok {
					target = mi.X
				}
				for _, d := range deletes {
					dk := d.I.(*ssa.Call).Call.Args[1]
					from := false
					cands := rg.Origins(RV{V: dk, C: d.C})
					if ld, ok := dk.(*ssa.UnOp); ok {
						// *p with p a pointer handed to the helper: the address it was given
						cands = append(cands, rg.Origins(RV{V: ld.X, C: d.C})...)
					}
					// a field of the record a pointer refers to (replaced.Metadata.EntityID): the record the pointer was
					// obtained from (a loader helper's result handed to a registering helper)
					if root := rootOfAddr(dk); root != dk {
						cands = append(cands, rg.Origins(RV{V: root, C: d.C})...)
					}
					for _, o := range cands {
						if o.C == g.C && (rootOfAddr(o.V) == rootOfAddr(target) || derivesFrom(o.V, target, 0)) {
							from = true
						}
					}
					if !from {
						continue
					}
					pp, dp := rg.SiteIn(rg.top, put), rg.SiteIn(rg.top, d)
					if pp != nil && dp != nil && (pp.Block() == dp.Block() && instrBefore(pp.Block(), pp, dp) || blockReaches(pp.Block(), dp.Block())) {
						okF = true
					}
				}
			}
			r.Check(okF, rule, fmt.Sprintf("%s: overwriting a stored service unregisters the entity ID it had before", p.FnName(fn)), p.InstrPos(put.I), "Store.Get(key) before, delete(registry, previous key) after Store.Put(key)", "the record under "+keyOf(put)+" is replaced and the new entity ID registered, but the entity ID of the replaced record is never removed from the registry: a service overwritten with different metadata (or deleted afterwards) keeps receiving assertions under its old entity ID until restart")
		}
	}
	// registry keys agree
	keys := map[string][]string{}
	for _, s := range reg {
		keys[s.key] = append(keys[s.key], s.kind+" in "+s.fn+" at "+s.pos)
	}
	var ks []string
	for k := range keys {
		ks = append(ks, k)
	}
	sort.Strings(ks)
	nUpd, nDel := 0, 0
	for _, s := range reg {
		if s.kind == "update" {
			nUpd++
		} else {
			nDel++
		}
	}
	detail := []string{}
	for _, k := range ks {
		detail = append(detail, k+": "+strings.Join(keys[k], ", "))
	}
	r.Check(len(ks) == 1 && nUpd >= 1 && nDel >= 1, rule, "service registry: entries are inserted and removed under the same key expression", "-", strings.Join(detail, " | "), "the registry is updated and deleted under different key expressions ("+strings.Join(detail, " | ")+"): an entry inserted under one spelling is never removed, so a deleted service keeps receiving assertions until restart")
}

// storeKeyOf: a store key in the form (format, argument): fmt.Sprintf("<prefix>%s", x), "<prefix>" + x, or either of
// these computed by a side-effect-free helper of its argument; ("?", access path) otherwise.
func storeKeyOf(fc *FuncCtx, v ssa.Value, depth int) (string, string) {
	// (a key under a defined string type - type storeKey string - and through the parameters of the small methods that
	// build it: sessionID(x).key().text())
	fc, v = throughParams(fc, v)
	switch x := v.(type) {
	case *ssa.Call:
		// prefix and item written into a local builder
		if parts := builderParts(x); len(parts) > 0 {
			if pf, isC := constStr(parts[0]); isC && len(parts) == 2 {
				return pf + "%s", fc.AP(parts[1])
			}
			return "?", fc.AP(x)
		}
		if calleeIs(x, "fmt.Sprintf") {
			f, _ := constStr(x.Call.Args[0])
			if vs := varargValues(x); len(vs) == 1 {
				return f, fc.AP(vs[0])
			}
			return f, "?"
		}
		if sc := x.Call.StaticCallee(); sc != nil && depth < 2 && fc.A.isPureModuleFunc(sc) {
			if ret := singleReturn(sc); ret != nil && len(ret.Results) == 1 {
				sub := fc.inlineCtx(sc, x.Call.Args, x)
				return storeKeyOf(sub, ret.Results[0], depth+1)
			}
		}
	case *ssa.BinOp:
		if x.Op == token.ADD {
			if pf, ok := constStr(x.X); ok {
				return pf + "%s", fc.AP(x.Y)
			}
			// the prefix handed to a key-building helper as an argument (StoreKey(SessionsPrefix, id) = prefix + id)
			if _, pv := throughParams(fc, x.X); pv != nil {
				if pf, ok := constStr(pv); ok {
					return pf + "%s", fc.AP(x.Y)
				}
			}
			// the prefix read from a constant package-level table by a constant index (storePrefix[kindUser] + name)
			if pf, ok := constTableString(fc, x.X); ok {
				return pf + "%s", fc.AP(x.Y)
			}
		}
	}
	return "?", fc.AP(v)
}

// constTableString: v reads a package-level array of strings, written only by its initialiser, at an index that is a
// constant here (directly, or as the argument bound to a parameter of a helper analysed as part of its caller).
func constTableString(fc *FuncCtx, v ssa.Value) (string, bool) {
	ld, ok := v.(*ssa.UnOp)
	if !ok || ld.Op != token.MUL {
		return "", false
	}
	ia, ok := ld.X.(*ssa.IndexAddr)
	if !ok {
		return "", false
	}
	g, ok := ia.X.(*ssa.Global)
	if !ok || g.Pkg == nil {
		return "", false
	}
	k, ok := constIndexIn(fc, ia.Index, 0)
	if !ok {
		return "", false
	}
	p := fc.A.P
	for _, fn := range p.modFns {
		if fn.Name() == "init" && fn.Pkg == g.Pkg {
			continue
		}
		for _, b := range fn.Blocks {
			for _, in := range b.Instrs {
				if st, ok := in.(*ssa.Store); ok && rootOfAddr(st.Addr) == ssa.Value(g) {
					return "", false
				}
			}
		}
	}
	init := g.Pkg.Func("init")
	if init == nil {
		return "", false
	}
	val, n := "", 0
	for _, b := range init.Blocks {
		for _, in := range b.Instrs {
			st, ok := in.(*ssa.Store)
			if !ok {
				continue
			}
			sa, ok := st.Addr.(*ssa.IndexAddr)
			if !ok || sa.X != ssa.Value(g) {
				continue
			}
			if sk, ok := constInt(sa.Index); ok && sk == k {
				if s, ok := constStr(st.Val); ok {
					val = s
					n++
				}
			}
		}
	}
	return val, n == 1
}

func constIndexIn(fc *FuncCtx, v ssa.Value, depth int) (int64, bool) {
	if depth > 4 {
		return 0, false
	}
	for {
		if cv, ok := v.(*ssa.Convert); ok {
			v = cv.X
			continue
		}
		if ct, ok := v.(*ssa.ChangeType); ok {
			v = ct.X
			continue
		}
		break
	}
	if k, ok := constInt(v); ok {
		return k, true
	}
	if prm, ok := v.(*ssa.Parameter); ok && fc.parent != nil {
		if av := fc.argVal[prm]; av != nil {
			return constIndexIn(fc.parent, av, depth+1)
		}
	}
	return 0, false
}

func checkStoreErrors(r *Report, p *Prog) {
	for _, fn := range p.modFns {
		if !p.InLibrary(fn) || !inPkg(fn, idpPkgPath) {
			continue
		}
		for _, b := range fn.Blocks {
			for _, in := range b.Instrs {
				c, ok := in.(*ssa.Call)
				if !ok {
					continue
				}
				k := storeCallKind(&c.Call)
				if k == "" {
					continue
				}
				ev := errResultValue(c)
				tested := ev != nil && errTested(p, ev, 0)
				a := NewAnalysis(p)
				key := ""
				if len(c.Call.Args) > 0 {
					key = a.Ctx(fn).AP(c.Call.Args[0])
				}
				r.Check(tested, "C19.store-errors", fmt.Sprintf("%s: error of Store.%s(%s) tested", p.FnName(fn), k, key), p.InstrPos(in), "compared or returned", "the error of the backing-store call is dropped: a failed lookup/update is treated as success")
			}
		}
	}
}

// errTested: the error value is compared, returned or kept, here or in a module function it is handed to (a classifier
// such as classify(err) that compares it with nil and the sentinels).
func errTested(p *Prog, v ssa.Value, depth int) bool {
	if depth > 2 || v.Referrers() == nil {
		return false
	}
	for _, rf := range *v.Referrers() {
		switch y := rf.(type) {
		case *ssa.BinOp, *ssa.Return, *ssa.Phi, *ssa.Store:
			return true
		case *ssa.Call:
			sc := y.Call.StaticCallee()
			if sc == nil || !p.InModule(sc) || len(sc.Blocks) == 0 {
				continue
			}
			for i, a := range y.Call.Args {
				if a == v && i < len(sc.Params) && errTested(p, sc.Params[i], depth+1) {
					return true
				}
			}
		}
	}
	return false
}

// checkStoreFailureReplies: on a path where some store call failed (other than with the distinguished
// not-found error) the handler must not acknowledge success.
func checkStoreFailureReplies(r *Report, p *Prog) {
	for _, fn := range p.modFns {
		if !p.InLibrary(fn) || !inPkg(fn, idpPkgPath) || !isHandlerShaped(fn) {
			continue
		}
		a := NewAnalysis(p)
		// the steps a handler is split into (load the previous record, store, register) are part of it: a store error
		// that a step swallows is an error the handler did not act on
		a.Inline = func(f *ssa.Function) bool {
			return inPkg(f, idpPkgPath) && p.InLibrary(f) && f != fn && (f.Object() == nil || !f.Object().Exported()) && !isHandlerShaped(f)
		}
		B := a.B
		rg := NewRegion(p, fn, 2)
		fc := rg.Ctx(a, rg.top)
		fc.ensureConds()
		// store calls and their error atoms
		type sc struct {
			call *ssa.Call
			nilA string
			cond *bddNode
		}
		var scs []sc
		for _, c := range rg.all {
			if c != rg.top && isHandlerShaped(c.fn) {
				continue
			}
			cfc := rg.Ctx(a, c)
			cfc.ensureConds()
			for _, b := range c.fn.Blocks {
				for _, in := range b.Instrs {
					if call, ok := in.(*ssa.Call); ok && storeCallKind(&call.Call) != "" {
						ev := errResultValue(call)
						if ev != nil {
							scs = append(scs, sc{call, "isnil(" + cfc.AP(ev) + ")", cfc.AbsCond(b)})
						}
					}
				}
			}
		}
		if len(scs) == 0 {
			continue
		}
		for _, c := range rg.all {
			if c != rg.top && isHandlerShaped(c.fn) {
				continue
			}
			cfc := rg.Ctx(a, c)
			cfc.ensureConds()
			for _, b := range c.fn.Blocks {
				for _, in := range b.Instrs {
					call, ok := in.(*ssa.Call)
					if !ok {
						continue
					}
					success := false
					what := ""
					if call.Call.IsInvoke() && call.Call.Method.Name() == "WriteHeader" {
						if k, ok := constInt(call.Call.Args[0]); ok && k < 400 {
							success = true
							what = fmt.Sprintf("WriteHeader(%d)", k)
						}
					}
					if calleeIs(call, "(*encoding/json.Encoder).Encode") || calleeIs(call, "(*encoding/xml.Encoder).Encode") {
						success = true
						what = "encoded result"
					}
					if !success {
						continue
					}
					cnd := cfc.AbsCond(b)
					for _, s := range scs {
						if !B.HasVar(s.nilA) {
							continue
						}
						failed := B.And(B.And(cnd, s.cond), B.Not(B.Var(s.nilA)))
						if failed == B.False {
							continue
						}
						// allowed only when the failure is the not-found error
						okNF := false
						for _, nm := range B.Support(failed) {
							if strings.Contains(nm, "ErrNotFound") && strings.HasPrefix(nm, "eq(") && B.Implies(failed, B.Var(nm)) {
								okNF = true
							}
						}
						cons := fmt.Sprintf("%s: %s after a failed Store.%s", p.FnName(fn), what, storeCallKind(&s.call.Call))
						if okNF {
							r.OK("C19.store-errors", cons, p.InstrPos(in), "only for the distinguished not-found error")
						} else {
							r.Bad("C19.store-errors", cons, p.InstrPos(in), "the handler acknowledges success on a path where the backing store reported an error (store call at "+p.InstrPos(s.call)+")")
						}
					}
				}
			}
		}
	}
}

// checkWholePassword: C19.whole-password. The credential a user is stored with and the credential a login presents go
// into bcrypt whole: the password operand of GenerateFromPassword (user management) and of CompareHashAndPassword (login)
// is the []byte conversion of the client's string itself. A sub-range on one side only (the stored hash covers a prefix,
// the comparison the whole, or the reverse) lets a password that was never the user's pass the check.
func checkWholePassword(r *Report, p *Prog, rule string) {
	n := 0
	for _, root := range p.modFns {
		if !p.InLibrary(root) || root.Pkg == nil || root.Pkg.Pkg.Path() != idpPkgPath || root.Signature.Recv() == nil || root.Object() == nil || !root.Object().Exported() {
			continue
		}
		hasReq := false
		for _, prm := range root.Params {
			hasReq = hasReq || typeIs(prm.Type(), "net/http", "Request")
		}
		if !hasReq {
			continue
		}
		rg := NewRegion(p, root, 3)
		rg.Each(func(x RI) {
			c, ok := x.I.(*ssa.Call)
			if !ok {
				return
			}
			var pw ssa.Value
			what := ""
			switch {
			case calleeIs(c, "golang.org/x/crypto/bcrypt.GenerateFromPassword"):
				pw, what = c.Call.Args[0], "hashed when the user is stored"
			case calleeIs(c, "golang.org/x/crypto/bcrypt.CompareHashAndPassword"):
				pw, what = c.Call.Args[1], "compared at login"
			default:
				return
			}
			n++
			r.Fn(p.FnName(x.C.fn))
			cons := fmt.Sprintf("%s: the password %s is the client's string, whole", p.FnName(root), what)
			bad := ""
			var visit func(v RV, d int)
			visit = func(v RV, d int) {
				for _, o := range rg.Origins(v) {
					switch y := o.V.(type) {
					case *ssa.Convert:
						if d < 4 {
							visit(RV{V: y.X, C: o.C}, d+1)
							continue
						}
					case *ssa.UnOp:
						if y.Op == token.MUL {
							continue // a field of the decoded user record / a dereferenced *string
						}
					case *ssa.Call:
						if sc := y.Call.StaticCallee(); sc != nil {
							switch sc.String() {
							case "(*net/http.Request).FormValue", "(*net/http.Request).PostFormValue", "(net/url.Values).Get":
								continue
							}
						}
					}
					if bad == "" {
						bad = o.V.String()
						if in, ok := o.V.(ssa.Instruction); ok {
							bad += " at " + p.InstrPos(in)
						}
					}
				}
			}
			visit(RV{V: pw, C: x.C}, 0)
			r.Check(bad == "", rule, cons, p.InstrPos(c), "the operand is the []byte conversion of the posted string", "the operand is not the client's password itself: "+bad)
		})
	}
	if n == 0 {
		panic(unresolved{"role credential steps (bcrypt.GenerateFromPassword / CompareHashAndPassword under the bundled server's handlers)"})
	}
}

// hashParamMisuse: what a helper does with the stored hash it receives other than comparing a password against it ("" if
// nothing).
func hashParamMisuse(p *Prog, fn *ssa.Function, prm *ssa.Parameter, depth int) string {
	if depth > 2 {
		return "it is handed on through more than two helpers"
	}
	uses := append([]ssa.Instruction{}, *prm.Referrers()...)
	isHash := map[ssa.Value]bool{prm: true}
	for k := 0; k < len(uses) && k < 64; k++ {
		if ct, ok := uses[k].(*ssa.ChangeType); ok && ct.Referrers() != nil {
			isHash[ct] = true
			uses = append(uses, *ct.Referrers()...)
		}
	}
	for _, use := range uses {
		switch y := use.(type) {
		case *ssa.DebugRef, *ssa.ChangeType:
		case *ssa.Call:
			if calleeIs(y, "golang.org/x/crypto/bcrypt.CompareHashAndPassword") && isHash[y.Call.Args[0]] {
				continue
			}
			if sc := y.Call.StaticCallee(); sc != nil && p.InLibrary(sc) && inPkg(sc, idpPkgPath) && len(sc.Blocks) > 0 {
				bad := ""
				for i, a := range y.Call.Args {
					if isHash[a] && i < len(sc.Params) {
						bad = firstNonEmpty(bad, hashParamMisuse(p, sc, sc.Params[i], depth+1))
					}
				}
				if bad == "" {
					continue
				}
				return bad
			}
			return "it is passed to " + calleeName(&y.Call) + " at " + p.InstrPos(y)
		default:
			return "it flows into " + use.String() + " at " + p.InstrPos(use)
		}
	}
	return ""
}

// constantTextGlobal: the package-level string variable is assigned exactly once, by its package's initialiser, a
// constant or the result of http.StatusText, and module code stores to it nowhere else.
func constantTextGlobal(p *Prog, g *ssa.Global) bool {
	if g.Pkg == nil || !strings.HasPrefix(g.Pkg.Pkg.Path(), modPath) {
		return false
	}
	n := 0
	for _, fn := range p.modFns {
		for _, b := range fn.Blocks {
			for _, in := range b.Instrs {
				st, ok := in.(*ssa.Store)
				if !ok || st.Addr != ssa.Value(g) {
					continue
				}
				if fn.Name() != "init" || fn.Pkg != g.Pkg {
					return false
				}
				n++
				switch v := st.Val.(type) {
				case *ssa.Const:
				case *ssa.Call:
					if !calleeIs(v, "net/http.StatusText") {
						return false
					}
				default:
					return false
				}
			}
		}
	}
	if _, written := moduleWrittenGlobals(p)[g]; written {
		return false
	}
	return n == 1
}

// checkSessionWriters: who-may-write. "The assertion describes the user as stored at login": a stored session is written
// once, by the login path (GetSession and the helpers it is split into), and by nothing else — a later rewrite of live
// sessions (say, from the user-management handlers) changes what an old cookie asserts without a new login.
func checkSessionWriters(r *Report, p *Prog, rule string) {
	top := p.MustFunc("samlidp", "Server", "GetSession")
	login := map[*ssa.Function]bool{}
	for _, f := range helperRegion(p, top, 2) {
		login[f] = true
	}
	// the collection the login path stores sessions under
	prefix := ""
	type put struct {
		fn  *ssa.Function
		in  ssa.Instruction
		fmt string
		val ssa.Value
	}
	var puts []put
	for _, fn := range p.modFns {
		if !p.InLibrary(fn) || !inPkg(fn, idpPkgPath) {
			continue
		}
		fc := NewAnalysis(p).Ctx(fn)
		for _, b := range fn.Blocks {
			for _, in := range b.Instrs {
				c, ok := in.(ssa.CallInstruction)
				if !ok || storeCallKind(c.Common()) != "Put" || len(c.Common().Args) < 2 {
					continue
				}
				f, _ := storeKeyOf(fc, c.Common().Args[0], 0)
				puts = append(puts, put{fn, in, f, c.Common().Args[1]})
				if login[fn] && strings.HasSuffix(f, "%s") {
					prefix = strings.TrimSuffix(f, "%s")
				}
			}
		}
	}
	if prefix == "" {
		r.Undecided(rule, "stored sessions are written by the login path only", "-", "no session store write found under GetSession")
		return
	}
	bad := ""
	n := 0
	for _, pt := range puts {
		isSession := strings.HasPrefix(pt.fmt, prefix)
		if !isSession {
			// a value of the session type stored under a key that could not be read
			v := pt.val
			if mi, ok := v.(*ssa.MakeInterface); ok {
				v = mi.X
			}
			isSession = pt.fmt == "?" && typeIs(v.Type(), modPath, "Session")
		}
		if !isSession {
			continue
		}
		n++
		if !login[pt.fn] {
			bad = firstNonEmpty(bad, p.FnName(pt.fn)+" at "+p.InstrPos(pt.in))
		}
	}
	r.Check(n >= 1 && bad == "", rule, "stored sessions are written by the login path only", "-", fmt.Sprintf("%d writes under %q, all in GetSession or its helpers", n, prefix), "a stored session is (re)written outside the login path ("+bad+"): the holder of an old cookie is then asserted with data that was not the user's when they logged in")
}

// storeKeyArg: the value that fills the single %s of a store key built by fmt.Sprintf or by prefix + name.
func storeKeyArg(v ssa.Value) ssa.Value {
	switch x := v.(type) {
	case *ssa.Call:
		if calleeIs(x, "fmt.Sprintf") {
			if vs := varargValues(x); len(vs) == 1 {
				return vs[0]
			}
		}
	case *ssa.BinOp:
		if x.Op == token.ADD {
			return x.Y
		}
	}
	return nil
}

// keyDatumTransformed: the leaf a key argument comes from is the result of a function that computes a new string from
// its argument (anything but the accessors of the request and of url.Values, which hand out what the client sent).
func keyDatumTransformed(v ssa.Value) string {
	if ex, ok := v.(*ssa.Extract); ok {
		v = ex.Tuple
	}
	c, ok := v.(*ssa.Call)
	if !ok {
		return ""
	}
	if c.Call.IsInvoke() {
		return "" // List of the store, Get of a provider: a stored name
	}
	sc := c.Call.StaticCallee()
	if sc == nil {
		return ""
	}
	switch sc.String() {
	case "(*net/http.Request).PathValue", "(*net/http.Request).Cookie", "(*net/http.Request).FormValue", "(*net/http.Request).PostFormValue", "(net/url.Values).Get", "(net/http.Header).Get":
		return ""
	}
	hasString := false
	for _, a := range c.Call.Args {
		if isStringType(a.Type()) {
			hasString = true
		}
	}
	if !hasString {
		return "" // fresh randomness, a clock: not a function of a name
	}
	return "the result of " + sc.String()
}

// resultNilness: whether the pointer result v can be nil / can be non-nil on the paths that condition c stands for. A
// result variable (phi) is read alternative by alternative, keeping those whose edge is compatible with c; a value that
// is not known to be nil counts as non-nil (a session), as a directly returned value always did.
func resultNilness(fc *FuncCtx, c *bddNode, v ssa.Value, alwaysNil map[ssa.Value]bool, depth int) (canNil, canNon bool) {
	B := fc.A.B
	if isNilConst(v) || alwaysNil[v] {
		return true, false
	}
	if ph, ok := v.(*ssa.Phi); ok && depth < 6 {
		for i, e := range ph.Edges {
			pred := ph.Block().Preds[i]
			under := B.And(c, B.And(fc.Cond(pred), fc.edgeCond(pred, ph.Block())))
			if under == B.False {
				continue
			}
			n1, n2 := resultNilness(fc, under, Resolve(e), alwaysNil, depth+1)
			canNil = canNil || n1
			canNon = canNon || n2
		}
		return canNil, canNon
	}
	nn := fc.NonNil(v)
	if B.Implies(c, B.Not(nn)) {
		return true, false
	}
	return false, true
}

// carriesWriter: fn takes (as receiver or parameter) a pointer to a module struct one of whose fields is an
// http.ResponseWriter.
func carriesWriter(fn *ssa.Function) bool {
	for _, prm := range fn.Params {
		pt, ok := prm.Type().Underlying().(*types.Pointer)
		if !ok {
			continue
		}
		st, ok := pt.Elem().Underlying().(*types.Struct)
		if !ok {
			continue
		}
		for i := 0; i < st.NumFields(); i++ {
			if types.TypeString(st.Field(i).Type(), nil) == "net/http.ResponseWriter" {
				return true
			}
		}
	}
	return false
}
