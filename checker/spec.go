package main

// Reject-table comparison (rule kind K4). The code side is Reject_code = OR over reject exits of their
// path conditions (callee rejects substituted within the inlining bound). The spec side is written
// from the property statement as rows "condition => reject" plus accept scenarios; both speak about
// the same canonical atoms, which the binder looks up in the code by kind and access-path suffix.

import (
	"fmt"
	"sort"
	"strings"

	"golang.org/x/tools/go/ssa"
)

type Table struct {
	R      *Report
	A      *Analysis
	FC     *FuncCtx
	Fn     *ssa.Function
	Reject *bddNode
	known  map[string]bool // atoms bound by the spec (or declared neutral)
	name   string
}

func NewTable(r *Report, a *Analysis, fn *ssa.Function) *Table {
	fc := a.Ctx(fn)
	fc.ensureConds()
	r.Fn(a.P.FnName(fn))
	return &Table{R: r, A: a, FC: fc, Fn: fn, Reject: fc.NotAcceptFormula(), known: map[string]bool{}, name: a.P.FnName(fn)}
}

// atomsIn: atoms in the support of the reject formula.
func (t *Table) atomsIn() []*AtomInfo {
	var out []*AtomInfo
	for _, n := range t.A.B.Support(t.Reject) {
		if ai := t.A.Atoms[n]; ai != nil {
			out = append(out, ai)
		}
	}
	return out
}

type argPred func(string) bool

func sfx(s string) argPred   { return func(a string) bool { return strings.HasSuffix(a, s) } }
func has(s string) argPred   { return func(a string) bool { return strings.Contains(a, s) } }
func exact(s string) argPred { return func(a string) bool { return a == s } }

// Find returns the names of atoms of the given kind (in the support of Reject) whose arguments match
// the predicates in some order.
func (t *Table) Find(kind string, preds ...argPred) []string {
	var out []string
	for _, ai := range t.atomsIn() {
		if ai.Kind != kind || len(ai.Args) != len(preds) {
			continue
		}
		if matchArgs(ai.Args, preds) {
			out = append(out, ai.Name)
		}
	}
	sort.Strings(out)
	return out
}

func matchArgs(args []string, preds []argPred) bool {
	if len(args) == 1 {
		return preds[0](args[0])
	}
	if len(args) == 2 {
		return (preds[0](args[0]) && preds[1](args[1])) || (preds[0](args[1]) && preds[1](args[0]))
	}
	for i := range args {
		if !preds[i](args[i]) {
			return false
		}
	}
	return true
}

// One returns the unique atom matching, or "" (and records nothing).
func (t *Table) One(kind string, preds ...argPred) string {
	f := t.Find(kind, preds...)
	if len(f) == 1 {
		t.known[f[0]] = true
		return f[0]
	}
	return ""
}

func (t *Table) Know(names ...string) {
	for _, n := range names {
		if n != "" {
			t.known[n] = true
		}
	}
}

func (t *Table) V(name string) *bddNode { return t.A.B.Var(name) }

// Row checks "when => Reject_code"; missing lists the atoms the row needs that were not found
// (a missing atom means the comparison is not in the code at all).
func (t *Table) Row(rule, what string, when *bddNode, missing ...string) bool {
	cons := fmt.Sprintf("%s: reject when %s", t.name, what)
	pos := t.A.P.Pos(t.Fn.Pos())
	for _, m := range missing {
		if m != "" {
			t.R.Bad(rule, cons, pos, "the validator contains no such comparison ("+m+")")
			return false
		}
	}
	B := t.A.B
	if B.Implies(when, t.Reject) {
		t.R.OK(rule, cons, pos, "row implies the code's reject condition: "+t.A.canon(when))
		return true
	}
	cex := B.And(when, B.Not(t.Reject))
	t.R.Bad(rule, cons, pos, "not rejected on every path; accepted e.g. under "+firstCube(B, cex))
	return false
}

func firstCube(B *BDD, f *bddNode) string {
	cs := B.Cubes(f, 1)
	if len(cs) == 0 {
		return "false"
	}
	return strings.Join(cs[0], " & ")
}

// Accept checks that under the given valuation of known atoms (all call-failure atoms set to "no
// failure") the code does not reject, except through atoms that do not speak about property fields.
// fieldWords are substrings of access paths that make an unknown atom property-relevant.
func (t *Table) Accept(rule, what string, val map[string]bool, fieldWords []string) bool {
	B := t.A.B
	f := t.Reject
	for n, v := range val {
		if n != "" {
			f = B.Restrict(f, n, v)
		}
	}
	// call failures do not happen
	for _, n := range B.Support(f) {
		ai := t.A.Atoms[n]
		if ai != nil && isCallFailureAtom(ai) {
			f = B.Restrict(f, n, true) // isnil(err) = true
		}
	}
	cons := fmt.Sprintf("%s: accepted when %s", t.name, what)
	pos := t.A.P.Pos(t.Fn.Pos())
	if f == B.False {
		t.R.OK(rule, cons, pos, "no reject path is compatible with this valuation")
		return true
	}
	// residual atoms
	var fieldAtoms, neutral []string
	for _, n := range B.Support(f) {
		rel := false
		for _, w := range fieldWords {
			if strings.Contains(n, w) {
				rel = true
			}
		}
		if rel {
			fieldAtoms = append(fieldAtoms, n)
		} else {
			neutral = append(neutral, n)
		}
	}
	if len(fieldAtoms) > 0 || f == B.True {
		t.R.Bad(rule, cons, pos, fmt.Sprintf("an otherwise valid message is still rejected: residual condition %s", t.A.canon(f)))
		return false
	}
	t.R.OK(rule, cons, pos, "residual reject conditions do not involve the property's fields: "+strings.Join(neutral, ", "))
	return true
}

func isCallFailureAtom(ai *AtomInfo) bool {
	if ai.Kind != "isnil" || len(ai.Args) != 1 {
		return false
	}
	a := ai.Args[0]
	return strings.HasPrefix(a, "r:") && !strings.HasPrefix(a, "r:dyn:")
}

// Unknown reports atoms in the reject condition that mention property fields but were not bound by
// the spec: a comparison the property does not allow (prefix test, case-folding, extra bypass...).
func (t *Table) Unknown(rule string, fieldWords []string) {
	pos := t.A.P.Pos(t.Fn.Pos())
	for _, ai := range t.atomsIn() {
		if t.known[ai.Name] || isCallFailureAtom(ai) {
			continue
		}
		rel := ""
		for _, w := range fieldWords {
			if strings.Contains(ai.Name, w) {
				rel = w
			}
		}
		if rel == "" {
			continue
		}
		p := pos
		if ai.Instr != nil {
			p = t.A.P.InstrPos(ai.Instr)
		}
		t.R.Bad(rule, fmt.Sprintf("%s: unrecognised guard %s", t.name, ai.Name), p,
			"the accept/reject decision depends on a comparison over "+rel+" that the property's table does not contain")
	}
}

// TimeRow verifies a time comparison in linear normal form: reject when now is after (dir>0) or before
// (dir<0) field + coef*tol. It reports missing / wrong-tolerance / wrong-direction precisely.
func (t *Table) TimeRow(rule, field string, dir int, tol string, coef int64, nowPred argPred, given *bddNode) string {
	pos := t.A.P.Pos(t.Fn.Pos())
	cons := fmt.Sprintf("%s: time window on %s (%+d*%s)", t.name, field, coef, tol)
	var cands []*AtomInfo
	for _, ai := range t.atomsIn() {
		if ai.Kind != "before" || ai.TT[0] == nil {
			continue
		}
		if strings.HasSuffix(ai.TT[0].Base, field) || strings.HasSuffix(ai.TT[1].Base, field) {
			cands = append(cands, ai)
		}
	}
	if len(cands) == 0 {
		t.R.Bad(rule, cons, pos, "no time comparison on this field reaches a reject exit")
		return ""
	}
	found := ""
	for _, ai := range cands {
		t.known[ai.Name] = true
		fi, ni := 0, 1 // field term index, now term index
		if !strings.HasSuffix(ai.TT[0].Base, field) {
			fi, ni = 1, 0
		}
		ft, nt := ai.TT[fi], ai.TT[ni]
		p := t.A.P.InstrPos(ai.Instr)
		// direction: before(field+tol, now) = "now is after"; before(now, field+tol) = "now is before"
		gotDir := 1
		if fi == 1 {
			gotDir = -1
		}
		// move tolerance of the now-term to the field side
		coefs := map[string]int64{}
		for k, v := range ft.Coef {
			coefs[k] += v
		}
		for k, v := range nt.Coef {
			coefs[k] -= v
		}
		cst := ft.Const - nt.Const
		var problems []string
		if !nowPred(nt.Base) {
			problems = append(problems, "compared against "+nt.Base+" instead of the validation time")
		}
		if gotDir != dir {
			problems = append(problems, "direction of the comparison is reversed")
		}
		for k, v := range coefs {
			if v == 0 {
				continue
			}
			if !strings.HasSuffix(k, tol) {
				problems = append(problems, fmt.Sprintf("tolerance term %+d*%s is not part of the documented window", v, k))
			} else if v != coef {
				problems = append(problems, fmt.Sprintf("tolerance is %+d*%s, documented %+d*%s", v, k, coef, tol))
			}
		}
		hasTol := false
		for k, v := range coefs {
			if strings.HasSuffix(k, tol) && v != 0 {
				hasTol = true
			}
		}
		if !hasTol && coef != 0 {
			problems = append(problems, fmt.Sprintf("tolerance %s is missing (coefficient 0, documented %+d)", tol, coef))
		}
		if cst != 0 || ft.Opaque || nt.Opaque {
			problems = append(problems, "a constant or non-normalisable duration is added to the window")
		}
		// the row itself: atom => reject (with polarity: atom true means outside the window)
		if len(problems) == 0 {
			when := t.V(ai.Name)
			if given != nil {
				when = t.A.B.And(when, given)
			}
			if t.A.B.Implies(when, t.Reject) {
				t.R.OK(rule, cons, p, "normal form "+ai.Name)
				found = ai.Name
			} else {
				t.R.Bad(rule, cons, p, "comparison present but does not lead to a reject on every path: "+ai.Name)
			}
		} else {
			t.R.Bad(rule, cons, p, strings.Join(problems, "; ")+" — "+ai.Name)
		}
	}
	return found
}
