package main

// samlsp middleware: C16 (session tokens) and C17 (login flow bound to the browser that started it).

import (
	"fmt"
	"go/constant"
	"go/token"
	"go/types"
	"reflect"
	"sort"
	"strings"

	"golang.org/x/tools/go/ssa"
)

func init() {
	registry["C16"] = []func(*Report){ruleC16}
	registry["C17"] = []func(*Report){ruleC17}
}

const jwtPath = "github.com/golang-jwt/jwt/v4"

// litFields: values stored into the fields of struct objects of the named type built in fn
// (composite literals and subsequent field assignments on the same local).
func litFields(fn *ssa.Function, pkgPath, typeName string) map[string][]*ssa.Store {
	out := map[string][]*ssa.Store{}
	for _, b := range fn.Blocks {
		for _, in := range b.Instrs {
			st, ok := in.(*ssa.Store)
			if !ok {
				continue
			}
			fa, ok := st.Addr.(*ssa.FieldAddr)
			if !ok {
				continue
			}
			// allow nesting: claims.StandardClaims.ExpiresAt
			cur := fa
			path := fieldName(cur.X.Type(), cur.Field)
			for {
				if typeIs(cur.X.Type(), pkgPath, typeName) {
					out[path] = append(out[path], st)
					break
				}
				nx, ok := cur.X.(*ssa.FieldAddr)
				if !ok {
					break
				}
				cur = nx
				path = fieldName(cur.X.Type(), cur.Field) + "." + path
			}
		}
	}
	return out
}

func constBool(v ssa.Value) (bool, bool) {
	c, ok := v.(*ssa.Const)
	if !ok || c.Value == nil || c.Value.Kind() != constant.Bool {
		return false, false
	}
	return constant.BoolVal(c.Value), true
}

// decoderFns: the Decode methods of the two JWT codecs, found by role: samlsp methods that call
// (*jwt.Parser).ParseWithClaims.
// decoderFns: the samlsp functions that decode a token: the outermost library functions whose body, or an unexported
// helper they call, hands the token to jwt.Parser.ParseWithClaims (a parse helper shared by the codecs is part of each).
func decoderFns(p *Prog) []*ssa.Function {
	calls := func(fn *ssa.Function) bool {
		return len(callsTo(fn, "(*"+jwtPath+".Parser).ParseWithClaims")) > 0
	}
	var out []*ssa.Function
	for _, fn := range maximalRoots(p, calls) {
		if p.InLibrary(fn) {
			out = append(out, fn)
		}
	}
	return out
}

// markerField: the bool field with a json tag of the claims struct decoded by fn.
type markerInfo struct {
	Struct *types.Named
	Field  string
	JSON   string
}

func claimsStructOf(p *Prog, fn *ssa.Function) *types.Named {
	rg := NewRegion(p, fn, 2)
	for _, x := range rg.Calls("(*" + jwtPath + ".Parser).ParseWithClaims") {
		c := x.I.(*ssa.Call)
		for _, o := range rg.Origins(RV{V: c.Call.Args[2], C: x.C}) {
			if n := namedOf(o.V.Type()); n != nil {
				if _, isStruct := n.Underlying().(*types.Struct); isStruct {
					return n
				}
			}
		}
	}
	return nil
}

func jsonNames(n *types.Named, depth int) map[string]string { // json name -> field path
	out := map[string]string{}
	st, ok := n.Underlying().(*types.Struct)
	if !ok || depth > 3 {
		return out
	}
	for i := 0; i < st.NumFields(); i++ {
		f := st.Field(i)
		tag := reflect.StructTag(st.Tag(i)).Get("json")
		name := strings.Split(tag, ",")[0]
		if f.Embedded() && name == "" {
			if en := namedOf(f.Type()); en != nil {
				for k, v := range jsonNames(en, depth+1) {
					if _, dup := out[k]; !dup {
						out[k] = f.Name() + "." + v
					}
				}
			}
			continue
		}
		if name == "-" {
			continue
		}
		if name == "" {
			name = f.Name()
		}
		out[name] = f.Name()
	}
	return out
}

func markerOf(n *types.Named) *markerInfo {
	st, ok := n.Underlying().(*types.Struct)
	if !ok {
		return nil
	}
	for i := 0; i < st.NumFields(); i++ {
		f := st.Field(i)
		if b, ok := f.Type().Underlying().(*types.Basic); ok && b.Kind() == types.Bool {
			tag := reflect.StructTag(st.Tag(i)).Get("json")
			name := strings.Split(tag, ",")[0]
			if name != "" && name != "-" {
				return &markerInfo{Struct: n, Field: f.Name(), JSON: name}
			}
		}
	}
	return nil
}

func checkDecodeGates(r *Report, p *Prog, rule string, only func(*ssa.Function) bool) []*markerInfo {
	var markers []*markerInfo
	fns := decoderFns(p)
	if len(fns) < 2 {
		panic(unresolved{fmt.Sprintf("role JWT decoders (samlsp methods calling jwt.Parser.ParseWithClaims): found %d, expected the session codec and the tracked-request codec", len(fns))})
	}
	for _, fn := range fns {
		cs := claimsStructOf(p, fn)
		var mk *markerInfo
		if cs != nil {
			mk = markerOf(cs)
			if mk != nil {
				markers = append(markers, mk)
			}
		}
		if only != nil && !only(fn) {
			continue
		}
		if cs != nil {
			checkClaimsValid(r, p, rule, fn, cs)
		}
		a := NewAnalysis(p)
		// the decoder's unexported helpers (a shared parse step, the claim checks) are analysed as part of it
		a.Inline = func(f *ssa.Function) bool {
			return f.Pkg == fn.Pkg && f != fn && p.InLibrary(f) && (f.Object() == nil || !f.Object().Exported()) && f.Signature.Results().Len() == 1 && (errIndex(f) == 0 || isPredicate(f))
		}
		B := a.B
		t := NewTable(r, a, fn)
		rg := NewRegion(p, fn, 2)
		var parseErr, aud, iss, marker string
		for _, ai := range t.atomsIn() {
			switch {
			case ai.Kind == "isnil" && strings.Contains(ai.Name, "ParseWithClaims#"):
				parseErr = ai.Name
			case ai.Kind == "call" && strings.Contains(ai.Args[0], "VerifyAudience"):
				aud = ai.Name
				// (called on the claims value, or through an interface the claims types share: the receiver is then not an argument)
				ok := len(ai.Args) >= 3 && strings.HasSuffix(ai.Args[len(ai.Args)-2], ".Audience") && ai.Args[len(ai.Args)-1] == "c:true"
				r.Check(ok, rule, t.name+": audience verified against the codec's Audience, required", p.InstrPos(ai.Instr), strings.Join(ai.Args[1:], ", "), "VerifyAudience is called with "+strings.Join(ai.Args[1:], ", ")+" (audience must be the codec's and must be required)")
			case ai.Kind == "call" && strings.Contains(ai.Args[0], "VerifyIssuer"):
				iss = ai.Name
				ok := len(ai.Args) >= 3 && strings.HasSuffix(ai.Args[len(ai.Args)-2], ".Issuer") && ai.Args[len(ai.Args)-1] == "c:true"
				r.Check(ok, rule, t.name+": issuer verified against the codec's Issuer, required", p.InstrPos(ai.Instr), strings.Join(ai.Args[1:], ", "), "VerifyIssuer is called with "+strings.Join(ai.Args[1:], ", "))
			case ai.Kind == "b" && mk != nil && strings.HasSuffix(ai.Args[0], "."+mk.Field):
				marker = ai.Name
			}
		}
		t.Know(parseErr, aud, iss, marker)
		rw := func(what, atom string, pos bool) {
			if atom == "" {
				t.Row(rule, what, B.True, "no such check in the decoder")
				return
			}
			f := t.V(atom)
			if !pos {
				f = B.Not(f)
			}
			t.Row(rule, what, f)
		}
		rw("the token does not parse/verify", parseErr, false)
		rw("the audience claim is not this deployment's", aud, false)
		rw("the issuer claim is not this deployment's", iss, false)
		rw("the codec's marker claim is absent", marker, false)
		t.Accept(rule, "a token that parses and carries the right audience, issuer and marker", map[string]bool{parseErr: true, aud: true, iss: true, marker: true}, []string{"Audience", "Issuer", "claims", "Claims"})

		// parser literal (in the decoder or in its parse helper)
		pf := map[string][]*ssa.Store{}
		pfCtx := map[*ssa.Store]*FuncCtx{}
		for _, c := range rg.all {
			for f, sts := range litFields(c.fn, jwtPath, "Parser") {
				for _, st := range sts {
					if _, dup := pfCtx[st]; !dup {
						pf[f] = append(pf[f], st)
						pfCtx[st] = rg.Ctx(a, c)
					}
				}
			}
		}
		cons := t.name + ": jwt.Parser restricts the signing methods to the codec's own algorithm"
		vm := pf["ValidMethods"]
		okVM := false
		detail := "ValidMethods is not set: any algorithm the key function's key type verifies is accepted (alg substitution)"
		vmVal, vmCtx := ssa.Value(nil), (*FuncCtx)(nil)
		if len(vm) == 1 {
			vmVal, vmCtx = vm[0].Val, pfCtx[vm[0]]
		} else if len(vm) == 0 {
			// the options API: jwt.NewParser(jwt.WithValidMethods(list))
			for _, x := range rg.Calls(jwtPath + ".WithValidMethods") {
				vmVal, vmCtx = x.I.(*ssa.Call).Call.Args[0], rg.Ctx(a, x.C)
			}
		}
		if vmVal != nil {
			leaves := rootLeaves(vmVal, map[ssa.Value]bool{})
			fc := vmCtx
			if len(leaves) == 1 && strings.HasSuffix(fc.AP(leaves[0]), ".SigningMethod.Alg()") {
				okVM = true
				detail = "ValidMethods = [" + fc.AP(leaves[0]) + "]"
			} else {
				var ls []string
				for _, l := range leaves {
					ls = append(ls, fc.AP(l))
				}
				detail = "ValidMethods = " + strings.Join(ls, ", ")
			}
		}
		r.Check(okVM, rule, cons, p.Pos(fn.Pos()), detail, detail)
		for _, f := range []string{"SkipClaimsValidation", "UseJSONNumber"} {
			for _, st := range pf[f] {
				if v, ok := constBool(st.Val); !ok || v {
					r.Bad(rule, t.name+": jwt.Parser."+f, p.InstrPos(st), "the parser is configured to weaken validation")
				}
			}
		}
		// key function
		for _, x := range rg.Calls("(*" + jwtPath + ".Parser).ParseWithClaims") {
			c := x.I.(*ssa.Call)
			in := x.I
			xfc := rg.Ctx(a, x.C)
			kc := t.name + ": key function returns the codec's public key and ignores the token"
			var kf *ssa.Function
			var kfc *FuncCtx
			tokenParam := 0
			karg := c.Call.Args[3]
			if ct, ok := karg.(*ssa.ChangeType); ok {
				karg = ct.X
			}
			switch y := karg.(type) {
			case *ssa.MakeClosure:
				kf = y.Fn.(*ssa.Function)
				if m := forwardedBy(kf); m != nil && len(y.Bindings) == 1 {
					// a method value: the method with its receiver bound
					kf, tokenParam = m, 1
					kfc = xfc.inlineCtx(m, []ssa.Value{y.Bindings[0]}, c)
				} else {
					kfc = xfc.inlineClosure(kf, y, xfc, nil, c)
				}
			case *ssa.Function:
				kf = y
				kfc = a.Ctx(kf)
			}
			if kf == nil || tokenParam >= len(kf.Params) {
				r.Bad(rule, kc, p.InstrPos(in), "key function is not a literal closure or a method of the codec")
				continue
			}
			okK := len(*kf.Params[tokenParam].Referrers()) == 0
			for _, ret := range kfc.Returns() {
				ap := kfc.AP(Resolve(ret.Results[0]))
				if !strings.HasSuffix(ap, ".Key.Public()") {
					okK = false
				}
			}
			r.Check(okK, rule, kc, p.InstrPos(in), "returns c.Key.Public()", "the verification key depends on the presented token or is not the codec's key")
		}
	}
	// ParseUnverified is never called in the module
	for _, fn := range p.modFns {
		if !p.InLibrary(fn) {
			continue
		}
		for _, ci := range callsTo(fn, "(*"+jwtPath+".Parser).ParseUnverified") {
			r.Bad(rule, p.FnName(fn)+": ParseUnverified", p.InstrPos(ci.(ssa.Instruction)), "a token is parsed without signature verification")
		}
	}
	return markers
}

func ruleC16(r *Report) {
	p := r.P
	r.Trusted("golang-jwt v4.5.2 (signature verification, exp/nbf/iat validation, VerifyAudience/VerifyIssuer)", "go/ssa of golang.org/x/tools v0.29.0")
	r.NotDecided("golang-jwt's signature and time validation; cookie transport")
	r.Rule("C16.decode-gates", "both JWT decoders reject on parse/verify error, wrong audience, wrong issuer, missing marker; the parser admits only the codec's algorithm; the key function returns the codec's public key; ParseUnverified is never used", 9)
	r.Rule("C16.markers", "session and tracking claims carry distinct marker names, neither struct has a field decoding the other's marker, each minting function sets its own marker to true", 2)
	r.Rule("C16.expiry", "minted session tokens expire at TimeNow() + 1*MaxAge with iat = nbf = TimeNow()", 1)
	r.Rule("C16.gate", "RequireAccount serves the wrapped handler only with a non-nil session from the session provider; the cookie session provider returns a session only under a nil Decode error of the request's own cookie; RequireAttribute serves only when a value of the named attribute equals the required value", 1)
	r.Rule("C16.mapping", "claims attributes come only from the assertion's attribute statements and session indexes; the subject from the assertion's NameID", 1)

	markers := checkDecodeGates(r, p, "C16.decode-gates", nil)
	checkConfigReadOnly(r, p, "C16.decode-gates", "samlsp", "JWTSessionCodec", "CookieSessionProvider")
	checkMarkers(r, p, markers, "C16.markers")

	// expiry at mint (session codec): role = samlsp method taking *saml.Assertion and storing to a claims struct
	for _, fn := range p.modFns {
		if !p.InLibrary(fn) || fn.Pkg == nil || fn.Pkg.Pkg.Path() != modPath+"/samlsp" || fn.Signature.Recv() == nil {
			continue
		}
		if fn.Signature.Params().Len() != 1 || !typeIs(fn.Signature.Params().At(0).Type(), modPath, "Assertion") || fn.Signature.Results().Len() != 2 {
			continue
		}
		if !typeIs(fn.Signature.Recv().Type(), modPath+"/samlsp", "JWTSessionCodec") {
			continue
		}
		a := NewAnalysis(p)
		// the exported constructor may be a shell over the unexported function that fills the claims in
		ctor := fn
		if len(litFields(fn, modPath+"/samlsp", "JWTSessionClaims")) == 0 {
			var fillers []*ssa.Function
			for _, h := range helperRegion(p, fn, 2) {
				if h != fn && len(litFields(h, modPath+"/samlsp", "JWTSessionClaims")) > 0 {
					fillers = append(fillers, h)
				}
			}
			if len(fillers) == 1 {
				fn = fillers[0]
			}
		}
		fc := a.Ctx(fn)
		fc.ensureConds()
		r.Fn(p.FnName(fn))
		lf := litFields(fn, modPath+"/samlsp", "JWTSessionClaims")
		chk := func(field string, wantCoef int64) {
			cons := fmt.Sprintf("%s: %s", p.FnName(fn), field)
			sts := lf["StandardClaims."+field]
			if len(sts) != 1 {
				r.Bad("C16.expiry", cons, p.Pos(fn.Pos()), fmt.Sprintf("%d stores to the claim", len(sts)))
				return
			}
			// the claim is set for every token minted (a token without exp never expires: the decoder treats it as optional)
			for _, ret := range fc.Returns() {
				if (len(ret.Results) == 1 || len(ret.Results) == 2 && isNilConst(Resolve(ret.Results[1]))) && !fc.Implied(ret.Block(), fc.Cond(sts[0].Block())) {
					r.Bad("C16.expiry", cons, p.InstrPos(sts[0]), "the claim is set on some paths only (e.g. not under "+firstCube(a.B, a.B.And(fc.Cond(ret.Block()), a.B.Not(fc.Cond(sts[0].Block()))))+"): a token minted without it is not bounded by the session lifetime")
					return
				}
			}
			// (the instant may be computed by a local helper literal: stamp := func() int64 { return now.Unix() })
			vfc, vv := fc.valueOfPureCall(sts[0].Val)
			c, ok := vv.(*ssa.Call)
			if !ok || c.Call.StaticCallee() == nil || c.Call.StaticCallee().String() != "(time.Time).Unix" {
				r.Bad("C16.expiry", cons, p.InstrPos(sts[0]), "not the Unix time of an instant")
				return
			}
			tt := vfc.TimeTermOf(c.Call.Args[0])
			src := valueSources(p, fn, outOfLiteral(tt.BaseV), 0, map[string]bool{})
			okT := len(src) == 1 && src[0] == "call through saml.TimeNow" && tt.Const == 0 && !tt.Opaque
			n := 0
			for k, v := range tt.Coef {
				if v == 0 {
					continue
				}
				n++
				if !strings.HasSuffix(k, ".MaxAge") || v != wantCoef {
					okT = false
				}
			}
			if wantCoef == 0 && n != 0 || wantCoef != 0 && n != 1 {
				okT = false
			}
			r.Check(okT, "C16.expiry", cons, p.InstrPos(sts[0]), tt.String(), "claim is "+tt.String()+" (base from "+strings.Join(src, ",")+"), expected TimeNow()"+map[bool]string{true: " + 1*MaxAge", false: ""}[wantCoef != 0])
		}
		chk("ExpiresAt", 1)
		chk("IssuedAt", 0)
		chk("NotBefore", 0)

		// mapping: the constructor and the helpers it is split into, each seen with its parameters bound to the
		// constructor's values
		rg := NewRegion(p, ctor, 3)
		for _, act := range rg.all {
			mf := act.fn
			fm := rg.Ctx(a, act)
			r.Fn(p.FnName(mf))
			for _, b := range mf.Blocks {
				for _, in := range b.Instrs {
					mu, ok := in.(*ssa.MapUpdate)
					if !ok {
						continue
					}
					if mt, ok := mu.Map.Type().Underlying().(*types.Map); !ok || mt.Elem().String() != "[]string" {
						continue
					}
					cons := fmt.Sprintf("%s: attribute claim %s", p.FnName(mf), fm.AP(mu.Key))
					var vals []string
					okM := true
					why := "a claim value does not come from the assertion's attribute statements or session index"
					// (through a local helper that builds the extended slice: with := func(name, value string) []string {...})
					type leafIn struct {
						v  ssa.Value
						fc *FuncCtx
					}
					var leaves []leafIn
					for _, o := range rg.Origins(RV{V: mu.Value, C: act}) {
						for _, lf := range rootLeaves(o.V, map[ssa.Value]bool{}) {
							leaves = append(leaves, leafIn{lf, rg.Ctx(a, o.C)})
						}
					}
					for _, l := range leaves {
						lf, fm := l.v, l.fc
						ap := fm.AP(lf)
						vals = append(vals, ap)
						if sl, isSl := lf.(*ssa.Slice); isSl && sl.Max == nil {
							// a window into another slice: later appends through either alias overwrite the other's elements
							okM = false
							why = "the claim's values are a sub-slice of a shared buffer (" + fm.AP(sl.X) + "): appending to one claim can overwrite the values of another"
							continue
						}
						switch {
						case strings.Contains(ap, "Assertion.AttributeStatements[*].Attributes[*].Values[*].Value"):
						case strings.Contains(ap, "Assertion.AuthnStatements[*].SessionIndex"):
						case strings.Contains(ap, ".Attributes["): // the existing slice being extended
						case isMapLookupOf(lf, mu.Map, mu.Key): // the claim's own slice being extended
						default:
							okM = false
						}
					}
					r.Check(okM, "C16.mapping", cons, p.InstrPos(in), strings.Join(vals, ", "), why+": "+strings.Join(vals, ", "))
					// the claim is named by the attribute's FriendlyName, else its Name (or the constant session-index claim)
					keyOrigins := rg.Origins(RV{V: mu.Key, C: act})
					okK := len(keyOrigins) > 0
					var keys []string
					for _, gl := range keyOrigins {
						kap := rg.Ctx(a, gl.C).AP(gl.V)
						keys = append(keys, kap)
						if _, isC := gl.V.(*ssa.Const); isC {
							continue
						}
						if !(strings.HasSuffix(kap, "Attributes[*].FriendlyName") || strings.HasSuffix(kap, "Attributes[*].Name")) {
							okK = false
						}
					}
					r.Check(okK, "C16.mapping", cons+": key", p.InstrPos(in), strings.Join(keys, " | "), "the claim is not named by the attribute's FriendlyName/Name: "+strings.Join(keys, " | "))
				}
			}
		}
		fillAct := rg.top
		for _, act := range rg.all {
			if act.fn == fn {
				fillAct = act
				break
			}
		}
		for _, st := range lf["StandardClaims.Subject"] {
			okS := true
			var srcs []string
			for _, o := range rg.Origins(RV{V: st.Val, C: fillAct}) {
				if isEmptyStringConst(o.V) {
					continue // no subject / no name identifier
				}
				ap := rg.Ctx(a, o.C).AP(o.V)
				srcs = append(srcs, ap)
				if !strings.HasSuffix(ap, "Assertion.Subject.NameID.Value") {
					okS = false
				}
			}
			r.Check(okS && len(srcs) > 0, "C16.mapping", p.FnName(fn)+": Subject claim", p.InstrPos(st), strings.Join(srcs, " | "), "subject claim comes from "+strings.Join(srcs, " | "))
		}
	}

	checkSessionGates(r, p, "C16.gate")
}

func checkMarkers(r *Report, p *Prog, markers []*markerInfo, rule string) {
	if len(markers) != 2 {
		r.Bad(rule, "marker claims of the two token kinds", "-", fmt.Sprintf("found %d marker fields, expected one per codec", len(markers)))
		return
	}
	a, b := markers[0], markers[1]
	r.Check(a.JSON != b.JSON, rule, "marker names are distinct", "-", a.JSON+" / "+b.JSON, "both token kinds use the marker "+a.JSON)
	for _, pr := range [][2]*markerInfo{{a, b}, {b, a}} {
		names := jsonNames(pr[0].Struct, 0)
		_, has := names[pr[1].JSON]
		r.Check(!has, rule, fmt.Sprintf("%s cannot decode the marker %q of the other token kind", pr[0].Struct.Obj().Name(), pr[1].JSON), "-", "no field with that JSON name", "a field of "+pr[0].Struct.Obj().Name()+" decodes the other kind's marker")
	}
	// each minting function sets its own marker to the constant true
	for _, mk := range markers {
		n := 0
		for _, fn := range p.modFns {
			if !p.InLibrary(fn) {
				continue
			}
			for f, sts := range litFields(fn, mk.Struct.Obj().Pkg().Path(), mk.Struct.Obj().Name()) {
				if f != mk.Field {
					continue
				}
				for _, st := range sts {
					n++
					v, ok := constBool(st.Val)
					r.Check(ok && v, rule, fmt.Sprintf("%s: marker %s set at mint", p.FnName(fn), mk.Field), p.InstrPos(st), "constant true", "the marker is not set to the constant true")
				}
			}
		}
		if n == 0 {
			r.Bad(rule, "marker "+mk.Field+" set at mint", "-", "no minting function sets the marker")
		}
	}
}

func checkSessionGates(r *Report, p *Prog, rule string) {
	// RequireAccount: functions of samlsp (the closures the wrappers return, or the methods they delegate to) that invoke
	// http.Handler.ServeHTTP on a handler they were handed
	for _, fn := range p.modFns {
		if !p.InLibrary(fn) {
			continue
		}
		top := fn
		for top.Parent() != nil {
			top = top.Parent()
		}
		if top.Pkg == nil || top.Pkg.Pkg.Path() != modPath+"/samlsp" {
			continue
		}
		a := NewAnalysis(p)
		// a test factored out into an unexported predicate of the package is part of the guard
		a.Inline = func(f *ssa.Function) bool {
			return f.Pkg == top.Pkg && p.InLibrary(f) && (f.Object() == nil || !f.Object().Exported()) && isPredicate(f)
		}
		B := a.B
		fc := a.Ctx(fn)
		fc.ensureConds()
		for _, b := range fn.Blocks {
			for _, in := range b.Instrs {
				c, ok := in.(*ssa.Call)
				if !ok || !c.Call.IsInvoke() || c.Call.Method.Name() != "ServeHTTP" {
					continue
				}
				// (a handler the function was handed: a parameter or a captured variable, not one it makes itself such as
				// http.NotFoundHandler())
				hv := Resolve(c.Call.Value)
				if cv := capturedValue(hv); cv != nil {
					hv = cv
				}
				switch hv.(type) {
				case *ssa.Parameter, *ssa.FreeVar:
				default:
					if ld, isLd := hv.(*ssa.UnOp); isLd {
						if _, isFV := ld.X.(*ssa.FreeVar); isFV {
							break
						}
					}
					continue
				}
				r.Fn(p.FnName(fn))
				cons := fmt.Sprintf("%s: wrapped handler served only for an authenticated request", p.FnName(fn))
				okG := false
				why := ""
				for _, name := range B.Support(fc.Cond(b)) {
					ai := a.AtomIn(fn, name)
					if ai == nil {
						continue
					}
					switch {
					case ai.Kind == "isnil" && strings.Contains(name, "GetSession#") && strings.HasSuffix(ai.Args[0], "#0") && fc.Implied(b, B.Not(B.Var(name))):
						okG = true
						why = "dominated by session != nil for " + ai.Args[0]
					case ai.Kind == "eq" && fc.Implied(b, B.Var(name)) && strings.Contains(name, "[*]"):
						// RequireAttribute: v == value for v ranging over attributes[name]
						okG = true
						why = "dominated by " + name
					}
				}
				r.Check(okG, rule, cons, p.InstrPos(in), why, "the application handler runs on a path that does not establish a session / the required attribute value")
			}
		}
	}
	// CookieSessionProvider.GetSession
	gs := p.MustFunc("samlsp", "CookieSessionProvider", "GetSession")
	a := NewAnalysis(p)
	B := a.B
	fc := a.Ctx(gs)
	fc.ensureConds()
	r.Fn(p.FnName(gs))
	// the exported method may be a shell that hands its request and its own fields to the function doing the work:
	// that function, with its parameters bound to the shell's arguments
	for i := 0; i < 2; i++ {
		rets := fc.Returns()
		if len(rets) != 1 || len(rets[0].Results) != 2 {
			break
		}
		var call *ssa.Call
		okShell := true
		for k, rv := range rets[0].Results {
			ex, isEx := rv.(*ssa.Extract)
			if !isEx || ex.Index != k {
				okShell = false
				break
			}
			c, isC := ex.Tuple.(*ssa.Call)
			if !isC || call != nil && c != call {
				okShell = false
				break
			}
			call = c
		}
		if !okShell || call == nil {
			break
		}
		sc := call.Call.StaticCallee()
		if sc == nil || !p.InLibrary(sc) || len(sc.Blocks) == 0 {
			break
		}
		fc = fc.inlineCtx(sc, call.Call.Args, call)
		fc.ensureConds()
		r.Fn(p.FnName(sc))
	}
	for _, ret := range fc.Returns() {
		_, fres := fc.forwardedResults(ret)
		v := Resolve(fres[0])
		if isNilConst(v) {
			continue
		}
		cons := p.FnName(gs) + ": session returned only for a cookie value the codec decoded"
		ok := false
		if ex, okx := v.(*ssa.Extract); okx && ex.Index == 0 {
			if c, okc := ex.Tuple.(*ssa.Call); okc && c.Call.IsInvoke() && c.Call.Method.Name() == "Decode" {
				name := "isnil(" + fc.AP(c) + "#1)"
				argAP := fc.AP(c.Call.Args[0])
				if B.HasVar(name) && fc.Implied(ret.Block(), B.Var(name)) && strings.Contains(argAP, "Cookie(") && strings.HasSuffix(argAP, ".Value") {
					ok = true
				}
			}
		}
		r.Check(ok, rule, cons, p.InstrPos(ret), "under Decode(err) == nil on the request's session cookie", "a session object is returned on a path where the codec did not accept the cookie")
	}
}

// ------------------------------------------------------------------------------------------ C17

func ruleC17(r *Report) {
	p := r.P
	r.Trusted("golang-jwt v4.5.2", "net/http cookie parsing and http.Redirect", "go/ssa of golang.org/x/tools v0.29.0")
	r.NotDecided("multi-flow interleavings (the history clause of the property); browser cookie semantics; replay within the tracking lifetime")
	r.Rule("C17.ids", "outstanding request IDs passed to the SP come only from authentic tracking cookies (and the empty ID under AllowIDPInitiated)", 1)
	r.Rule("C17.tracker", "a tracked request is returned only if its cookie is present, decodes, and its signed index equals the index in the cookie name", 2)
	r.Rule("C17.marker", "the tracking-token decoder has the same gates as the session decoder (algorithm, key, audience, issuer, own marker)", 4)
	r.Rule("C17.redirect", "the final redirect goes to the configured default, to the URI of the authentic tracked request named by RelayState, or to RelayState itself only when no cookie exists and IdP-initiated login is allowed", 1)
	r.Rule("C17.order", "tracking cookie cleared (nil error) before the session is created; session created (nil error) before the redirect; response parsed and assertion handler passed before any session is created", 1)
	r.Rule("C17.cookie-flags", "session cookie HttpOnly/Secure follow the provider settings whose defaults are HttpOnly=true and Secure on https; tracking cookie is HttpOnly, Secure on https, scoped to the ACS path and named prefix+signed index", 4)
	r.Rule("C17.track-uri", "the URI recorded in the tracking cookie at flow start is the URL of the request that started the flow (its URL or RequestURI), not a header, form value or other client-chosen text", 1)
	r.Rule("C17.lifetime", "tracking lifetime is exactly saml.MaxIssueDelay (codec and cookie) and tracking tokens expire at TimeNow() + 1*MaxAge", 1)

	m := &spModel{P: p}
	checkMiddlewareIDs(r, m, "C17.ids")
	checkDecodeGates(r, p, "C17.marker", func(fn *ssa.Function) bool {
		cs := claimsStructOf(p, fn)
		return cs != nil && strings.Contains(cs.Obj().Name(), "TrackedRequest")
	})
	checkTracker(r, p, "C17.tracker")
	safely(r, func() { checkTrackIndex(r, p, "C17.tracker") })
	checkConfigReadOnly(r, p, "C17.tracker", "samlsp", "JWTTrackedRequestCodec", "CookieRequestTracker", "Middleware")
	checkStopTracking(r, p, "C17.tracker")
	checkRedirect(r, p, "C17.redirect", "C17.order")
	checkCookieFlags(r, p, "C17.cookie-flags")
	checkLifetime(r, p, "C17.lifetime")
	checkTrackURI(r, p, "C17.track-uri")
	safely(r, func() { checkIDPInitiatedDefault(r, p, "C17.ids") })
}

// checkTrackURI: every value stored as TrackedRequest.URI under the tracker's TrackRequest (and the unexported helpers
// it is split into) is the String()/RequestURI() of the URL field, or the RequestURI field, of the *http.Request the
// method received.
func checkTrackURI(r *Report, p *Prog, rule string) {
	root := p.MustFunc("samlsp", "CookieRequestTracker", "TrackRequest")
	r.Fn(p.FnName(root))
	rg := NewRegion(p, root, 3)
	isRootReq := func(v RV) bool {
		os := rg.Origins(v)
		if len(os) == 0 {
			return false
		}
		for _, o := range os {
			prm, ok := o.V.(*ssa.Parameter)
			if !ok || prm.Parent() != root || !typeIs(prm.Type(), "net/http", "Request") {
				return false
			}
		}
		return true
	}
	reqField := func(v RV, field string) bool {
		os := rg.Origins(v)
		if len(os) == 0 {
			return false
		}
		for _, o := range os {
			ld, ok := o.V.(*ssa.UnOp)
			if !ok || ld.Op != token.MUL {
				return false
			}
			fa, ok := ld.X.(*ssa.FieldAddr)
			if !ok || fieldName(fa.X.Type(), fa.Field) != field || !isRootReq(RV{V: fa.X, C: o.C}) {
				return false
			}
		}
		return true
	}
	n := 0
	rg.Each(func(x RI) {
		st, ok := x.I.(*ssa.Store)
		if !ok {
			return
		}
		fa, ok := st.Addr.(*ssa.FieldAddr)
		if !ok || !typeIs(fa.X.Type(), modPath+"/samlsp", "TrackedRequest") || fieldName(fa.X.Type(), fa.Field) != "URI" {
			return
		}
		n++
		cons := fmt.Sprintf("%s: TrackedRequest.URI recorded at flow start", p.FnName(x.C.fn))
		bad := ""
		os := rg.Origins(RV{V: st.Val, C: x.C})
		for _, o := range os {
			okO := false
			switch y := o.V.(type) {
			case *ssa.Call:
				if sc := y.Call.StaticCallee(); sc != nil && len(y.Call.Args) == 1 {
					switch sc.String() {
					case "(*net/url.URL).String", "(*net/url.URL).RequestURI":
						okO = reqField(RV{V: y.Call.Args[0], C: o.C}, "URL")
					}
				}
			case *ssa.UnOp:
				okO = reqField(o, "RequestURI")
			}
			if !okO {
				bad = o.V.String()
				if in, ok := o.V.(ssa.Instruction); ok {
					bad += " at " + p.InstrPos(in)
				}
			}
		}
		r.Check(len(os) > 0 && bad == "", rule, cons, p.InstrPos(st), fmt.Sprintf("all %d sources are the URL of the request that started the flow", len(os)), "the recorded return URI has a source that is not the starting request's own URL: "+bad)
	})
	if n == 0 {
		r.Bad(rule, p.FnName(root)+": TrackedRequest.URI recorded at flow start", p.Pos(root.Pos()), "no store to TrackedRequest.URI found under TrackRequest")
	}
}

func checkTracker(r *Report, p *Prog, rule string) {
	// GetTrackedRequests
	fn := p.MustFunc("samlsp", "CookieRequestTracker", "GetTrackedRequests")
	a := NewAnalysis(p)
	// the per-cookie checks may sit in an unexported helper of the package (decode, then compare the index)
	a.Inline = func(f *ssa.Function) bool {
		return f.Pkg == fn.Pkg && f != fn && p.InLibrary(f) && (f.Object() == nil || !f.Object().Exported()) && (errIndex(f) >= 0 || lastResultIsBool(f))
	}
	B := a.B
	fc := a.Ctx(fn)
	fc.ensureConds()
	r.Fn(p.FnName(fn))
	rgT := NewRegion(p, fn, 2)
	n := 0
	for _, b := range fn.Blocks {
		for _, in := range b.Instrs {
			c, ok := in.(*ssa.Call)
			if !ok {
				continue
			}
			bi, ok := c.Call.Value.(*ssa.Builtin)
			if !ok || bi.Name() != "append" {
				continue
			}
			n++
			var pre, dec, idx bool
			for _, name := range B.Support(fc.Cond(b)) {
				ai := a.AtomIn(fn, name)
				if ai == nil {
					continue
				}
				switch {
				case ai.Kind == "call" && strings.Contains(ai.Args[0], "strings.HasPrefix") && strings.HasSuffix(ai.Args[2], ".NamePrefix") && fc.Implied(b, B.Var(name)):
					pre = true
				case ai.Kind == "isnil" && strings.Contains(name, "Decode#") && strings.HasSuffix(ai.Args[0], "#1") && fc.Implied(b, B.Var(name)):
					dec = true
				case ai.Kind == "eq" && strings.Contains(name, "strings.TrimPrefix(") && strings.Contains(name, ".Index") && fc.Implied(b, B.Var(name)):
					idx = true
				}
			}
			cons := p.FnName(fn) + ": tracked request listed only for an authentic, correctly named cookie"
			why := ""
			if !pre {
				why += "cookie name prefix not checked; "
			}
			if !dec {
				why += "Decode error not checked; "
			}
			if !idx {
				why += "signed index not compared with the cookie name; "
			}
			r.Check(pre && dec && idx, rule, cons, p.InstrPos(in), "prefix, decode, index == name suffix", why)
			// what is appended is the decoded request
			av := appendedValue(c)
			if av != nil {
				ap := fc.AP(av)
				okD := strings.Contains(ap, "Decode#")
				if !okD {
					if ld, isLd := av.(*ssa.UnOp); isLd {
						av = ld.X
					}
					for _, o := range rgT.Origins(RV{V: av, C: rgT.top}) {
						if oap := rgT.Ctx(a, o.C).AP(o.V); strings.Contains(oap, "Decode#") {
							okD, ap = true, oap
						}
					}
				}
				r.Check(okD, rule, p.FnName(fn)+": listed value is the decoded tracked request", p.InstrPos(in), ap, "listed value is "+ap)
			}
		}
	}
	if n == 0 {
		r.Bad(rule, p.FnName(fn)+": result list", p.Pos(fn.Pos()), "no append found")
	}
	// GetTrackedRequest
	fn2 := p.MustFunc("samlsp", "CookieRequestTracker", "GetTrackedRequest")
	a2 := NewAnalysis(p)
	a2.Inline = func(f *ssa.Function) bool {
		return f.Pkg == fn2.Pkg && f != fn2 && p.InLibrary(f) && (f.Object() == nil || !f.Object().Exported()) && errIndex(f) >= 0
	}
	B2 := a2.B
	fc2 := a2.Ctx(fn2)
	fc2.ensureConds()
	r.Fn(p.FnName(fn2))
	for _, ret := range fc2.Returns() {
		if !isNilConst(Resolve(ret.Results[1])) {
			continue
		}
		var ck, dec, idx bool
		for _, name := range B2.Support(fc2.Cond(ret.Block())) {
			ai := a2.AtomIn(fn2, name)
			if ai == nil {
				continue
			}
			switch {
			case ai.Kind == "isnil" && strings.Contains(name, "Cookie#") && fc2.Implied(ret.Block(), B2.Var(name)):
				ck = true
			case ai.Kind == "isnil" && strings.Contains(name, ".Cookie(") && strings.HasSuffix(ai.Args[0], "#1") && fc2.Implied(ret.Block(), B2.Var(name)):
				ck = true
			case ai.Kind == "isnil" && strings.Contains(name, "Decode#") && fc2.Implied(ret.Block(), B2.Var(name)):
				dec = true
			case ai.Kind == "eq" && strings.Contains(name, ".Index") && fc2.Implied(ret.Block(), B2.Var(name)):
				// compared with the requested index parameter
				for _, arg := range ai.Args {
					if arg == "p:index" || strings.HasPrefix(arg, "p:") {
						idx = true
					}
				}
			}
		}
		cons := p.FnName(fn2) + ": tracked request returned only for an authentic cookie whose signed index equals the requested index"
		r.Check(ck && dec && idx, rule, cons, p.InstrPos(ret), "cookie present, decode ok, index equal", fmt.Sprintf("cookie=%v decode=%v index=%v", ck, dec, idx))
		// the cookie looked up is prefix + index
		for _, b := range fn2.Blocks {
			for _, in := range b.Instrs {
				if c, ok := in.(*ssa.Call); ok {
					if scf := c.Call.StaticCallee(); scf != nil && scf.String() == "(*net/http.Request).Cookie" {
						ap := fc2.AP(c.Call.Args[1])
						r.Check(strings.Contains(ap, ".NamePrefix+p:"), rule, p.FnName(fn2)+": cookie looked up by prefix + requested index", p.InstrPos(in), ap, "cookie name is "+ap)
					}
				}
			}
		}
	}
}

func checkRedirect(r *Report, p *Prog, rule, orderRule string) {
	for _, fn := range p.FuncsCalling("net/http.Redirect") {
		if fn.Pkg == nil || fn.Pkg.Pkg.Path() != modPath+"/samlsp" || !p.InLibrary(fn) {
			continue
		}
		a := NewAnalysis(p)
		// the resolution of the relay state may sit in an unexported helper of the package: part of this function
		a.Inline = func(f *ssa.Function) bool {
			return f.Pkg == fn.Pkg && f != fn && p.InLibrary(f) && (f.Object() == nil || !f.Object().Exported())
		}
		B := a.B
		fc := a.Ctx(fn)
		fc.ensureConds()
		r.Fn(p.FnName(fn))
		rg := NewRegion(p, fn, 2)
		for _, ci := range callsTo(fn, "net/http.Redirect") {
			call := ci.(*ssa.Call)
			target := call.Call.Args[2]
			for _, lf := range rg.Origins(RV{V: target, C: rg.top}) {
				lfc := rg.Ctx(a, lf.C)
				ap := lfc.AP(lf.V)
				cons := fmt.Sprintf("%s: redirect target %s", p.FnName(fn), ap)
				cnd := fc.Cond(call.Block())
				for _, vb := range lf.Via {
					vfc := rg.Ctx(a, vb.C)
					vfc.ensureConds()
					cnd = B.And(cnd, vfc.AbsCond(vb.B))
				}
				if len(lf.Via) == 0 {
					cnd = fc.Cond(call.Block())
				}
				switch {
				case lf.C == rg.top && isParamOf(fn, lf.V):
					// the parameter: callers must pass the configured default
					okP := true
					var srcs []string
					for _, cs := range p.StaticCallersOf(fn) {
						cfc := a.Ctx(cs.Caller)
						for i, prm := range fn.Params {
							if prm == lf.V {
								s := cfc.AP(cs.Instr.Common().Args[i])
								srcs = append(srcs, s)
								if !strings.HasSuffix(s, "ServiceProvider.DefaultRedirectURI") {
									okP = false
								}
							}
						}
					}
					r.Check(okP, rule, cons, p.InstrPos(call), "parameter bound to the configured DefaultRedirectURI at every call site", "the default redirect target is supplied from "+strings.Join(srcs, ", "))
					// ... and it is used only when the response names no flow (no RelayState), or names one whose cookie is absent
					// while IdP-initiated login is allowed: a RelayState that names a cookie which is present but does not validate
					// (expired, altered, renamed) is a refusal, not a default landing
					// the condition under which the target is this parameter: the phi edges that carry it (an edge taken
					// straight from a test is selected by that test, which no block condition records)
					if sel := phiSelectCond(fc, target, lf.V, 0); sel != nil {
						cnd = B.And(fc.Cond(call.Block()), sel)
					}
					noRelay, noCookie, allow := B.False, B.False, B.False
					for _, name := range B.Support(cnd) {
						ai := a.Atoms[name]
						if ai == nil {
							continue
						}
						switch {
						case ai.Kind == "empty" && strings.Contains(name, `.Form.Get(c:"RelayState")`):
							noRelay = B.Or(noRelay, B.Var(name))
						case strings.Contains(name, "ErrNoCookie") && ai.Kind == "eq":
							noCookie = B.Or(noCookie, B.Var(name))
						case strings.HasSuffix(name, "AllowIDPInitiated"):
							allow = B.Or(allow, B.Var(name))
						}
					}
					okD := B.Implies(cnd, B.Or(noRelay, B.And(noCookie, allow)))
					r.Check(okD, rule, cons+" (when)", p.InstrPos(call), "no RelayState, or no cookie and IdP-initiated login allowed", "the default redirect (and the session that precedes it) is reached although the RelayState names a tracking cookie that is present and failed to validate: e.g. under "+firstCube(B, B.And(cnd, B.Not(B.Or(noRelay, B.And(noCookie, allow))))))
				case strings.HasSuffix(ap, ".URI") && strings.Contains(ap, "GetTrackedRequest#"):
					okT := false
					for _, name := range B.Support(cnd) {
						if strings.Contains(name, "GetTrackedRequest#") && strings.HasPrefix(name, "isnil(") && strings.HasSuffix(name, "#1)") && B.Implies(cnd, B.Var(name)) {
							okT = true
						}
					}
					r.Check(okT, rule, cons, p.InstrPos(call), "URI of the tracked request under err == nil", "the tracked request's URI is used although the lookup failed")
					// ... and the request looked up is the one the RelayState names, nothing else (not a pending flow found
					// in the cookie jar when no RelayState came back: that response lands on the default)
					if tc := trackedLookupCall(lf.V); tc != nil && len(tc.Call.Args) >= 2 {
						idx := tc.Call.Args[len(tc.Call.Args)-1]
						var foreign []string
						for _, il := range rg.Origins(RV{V: idx, C: lf.C}) {
							iap := rg.Ctx(a, il.C).AP(il.V)
							if !strings.Contains(iap, `.Form.Get(c:"RelayState")`) && !isEmptyStringConst(il.V) {
								foreign = append(foreign, iap)
							}
						}
						sort.Strings(foreign)
						r.Check(len(foreign) == 0, rule, cons+" (named by RelayState)", p.InstrPos(tc), "the index looked up is the RelayState form value", "the tracked request is looked up under an index that is not the RelayState ("+strings.Join(foreign, ", ")+"): a response that names no flow, or another one, is completed at a pending flow's URL and that flow's cookie is cleared")
					}
				case strings.Contains(ap, `.Form.Get(c:"RelayState")`):
					var noCookie, allow bool
					for _, name := range B.Support(cnd) {
						if strings.Contains(name, "ErrNoCookie") && B.Implies(cnd, B.Var(name)) {
							noCookie = true
						}
						if strings.HasSuffix(name, "AllowIDPInitiated") && B.Implies(cnd, B.Var(name)) {
							allow = true
						}
					}
					r.Check(noCookie && allow, rule, cons, p.InstrPos(call), "only when the cookie is absent and IdP-initiated login is allowed", "the caller-chosen RelayState becomes the redirect target without the ErrNoCookie && AllowIDPInitiated guard")
				case isEmptyStringConst(lf.V):
					// the helper's "stop" result; the caller returns before the redirect
				default:
					r.Bad(rule, cons, p.InstrPos(call), "redirect target has a source outside the three allowed ones")
				}
			}
			// order
			var stopNil, createNil string
			for _, name := range B.Support(fc.Cond(call.Block())) {
				if strings.Contains(name, "r:CreateSession#") && strings.HasPrefix(name, "isnil(") {
					createNil = name
				}
			}
			r.Check(createNil != "" && fc.Implied(call.Block(), B.Var(createNil)), orderRule, p.FnName(fn)+": redirect only after the session was created without error", p.InstrPos(call), createNil, "the redirect is reachable although CreateSession failed or was skipped")
			for _, b := range fn.Blocks {
				for _, in := range b.Instrs {
					c, ok := in.(*ssa.Call)
					if !ok || !c.Call.IsInvoke() || c.Call.Method.Name() != "CreateSession" {
						continue
					}
					// on the tracked path (GetTrackedRequest err == nil) StopTrackingRequest must have returned nil
					cnd := fc.Cond(b)
					var tracked string
					// (the atoms are looked for in the conditions of all blocks: a CreateSession on a path that made no lookup
					// - the tail duplicated into the no-RelayState branch - is not on the tracked path at all)
					for _, b2 := range fn.Blocks {
						for _, name := range B.Support(fc.Cond(b2)) {
							if strings.HasPrefix(name, "isnil(") && strings.Contains(name, "StopTrackingRequest#") {
								stopNil = name
							}
							if strings.HasPrefix(name, "isnil(") && strings.Contains(name, "GetTrackedRequest#") && strings.HasSuffix(name, "#1)") {
								tracked = name
							}
						}
					}
					// the tracked path: the lookup was made (its block was reached) and returned no error
					reached := B.True
					rg.Each(func(x2 RI) {
						if c2, ok := x2.I.(*ssa.Call); ok && c2.Call.IsInvoke() && c2.Call.Method.Name() == "GetTrackedRequest" {
							xfc := rg.Ctx(a, x2.C)
							xfc.ensureConds()
							reached = xfc.AbsCond(x2.I.Block())
						}
					})
					okO := stopNil != "" && tracked != "" && B.Implies(B.And(B.And(cnd, reached), B.Var(tracked)), B.Var(stopNil))
					r.Check(okO, orderRule, p.FnName(fn)+": on the tracked path the tracking cookie is cleared before the session is created", p.InstrPos(in), "cond & tracked => StopTrackingRequest == nil", "a session can be created for a tracked request whose tracking cookie was not cleared")
				}
			}
		}
	}
	// ServeACS: ParseResponse nil and HandleAssertion nil dominate CreateSessionFromAssertion
	acs := p.MustFunc("samlsp", "Middleware", "ServeACS")
	a := NewAnalysis(p)
	B := a.B
	fc := a.Ctx(acs)
	fc.ensureConds()
	r.Fn(p.FnName(acs))
	found := false
	for _, b := range acs.Blocks {
		for _, in := range b.Instrs {
			c, ok := in.(*ssa.Call)
			if !ok || c.Call.StaticCallee() == nil || c.Call.StaticCallee().Name() != "CreateSessionFromAssertion" {
				continue
			}
			found = true
			var pr, ha bool
			var assertionOK bool
			for _, name := range B.Support(fc.Cond(b)) {
				if strings.Contains(name, "ParseResponse#") && strings.HasSuffix(name, "#1)") && fc.Implied(b, B.Var(name)) {
					pr = true
				}
				if strings.Contains(name, "HandleAssertion#") && fc.Implied(b, B.Var(name)) {
					ha = true
				}
			}
			for _, arg := range c.Call.Args {
				if strings.Contains(fc.AP(arg), "ParseResponse#") && strings.HasSuffix(fc.AP(arg), "#0") {
					assertionOK = true
				}
			}
			r.Check(pr && ha && assertionOK, orderRule, p.FnName(acs)+": session created only from the assertion ParseResponse returned, after the assertion handler accepted it", p.InstrPos(in), "ParseResponse err == nil, HandleAssertion == nil", fmt.Sprintf("parse ok=%v handler ok=%v same assertion=%v", pr, ha, assertionOK))
		}
	}
	if !found {
		r.Bad(orderRule, p.FnName(acs)+": session creation", p.Pos(acs.Pos()), "no call of CreateSessionFromAssertion found")
	}
}

func isParamOf(fn *ssa.Function, v ssa.Value) bool {
	for _, prm := range fn.Params {
		if prm == v {
			return true
		}
	}
	return false
}

func checkCookieFlags(r *Report, p *Prog, rule string) {
	// session cookie
	cs := p.MustFunc("samlsp", "CookieSessionProvider", "CreateSession")
	a := NewAnalysis(p)
	fc := a.Ctx(cs)
	r.Fn(p.FnName(cs))
	lf := litFieldsDeep(p, cs, "net/http", "Cookie")
	one := func(field string) (string, bool) {
		if len(lf[field]) != 1 {
			return "", false
		}
		return apInCaller(fc, lf[field][0].Val, lf[field][0].Parent()), true
	}
	ho, ok := one("HttpOnly")
	r.Check(ok && strings.HasSuffix(ho, ".HTTPOnly"), rule, p.FnName(cs)+": session cookie HttpOnly follows the provider setting", p.Pos(cs.Pos()), ho, "HttpOnly is "+ho)
	if len(lf["Secure"]) == 1 {
		secVal, secHome := lf["Secure"][0].Val, lf["Secure"][0].Parent()
		// the flag computed by the caller and handed to the cookie constructor in a content struct
		if cv := paramFieldInCaller(cs, secHome, secVal); cv != nil {
			secVal, secHome = cv, cs
		}
		leaves := boolLeaves(secVal, map[ssa.Value]bool{})
		var ls []string
		hasCfg, hasScheme := false, false
		for _, l := range leaves {
			s := apInCaller(fc, l, secHome)
			ls = append(ls, s)
			if strings.HasSuffix(s, ".Secure") {
				hasCfg = true
			}
			if strings.Contains(s, "URL.Scheme") && strings.Contains(s, `"https"`) {
				hasScheme = true
			}
		}
		// ... joined by OR: either of the two alone makes the cookie Secure
		orOK := false
		if hasCfg && hasScheme {
			sfc := a.Ctx(secHome)
			sfc.ensureConds()
			f := sfc.Formula(secVal)
			path := a.B.True // (the formula of a merged value carries the condition of the path that leads to the merge)
			if in, ok := secVal.(ssa.Instruction); ok && in.Block() != nil {
				path = sfc.Cond(in.Block())
			}
			nOK := 0
			for _, nm := range a.B.Support(f) {
				if strings.HasSuffix(nm, ".Secure") || strings.Contains(nm, "URL.Scheme") && strings.Contains(nm, `"https"`) {
					if a.B.Implies(a.B.And(path, a.B.Var(nm)), f) {
						nOK++
					}
				}
			}
			orOK = nOK >= 2
		}
		r.Check(hasCfg && hasScheme && orOK, rule, p.FnName(cs)+": session cookie Secure = provider setting OR request scheme is https", p.InstrPos(lf["Secure"][0]), strings.Join(ls, " | "), "Secure is not (provider setting OR https request); it is computed from "+strings.Join(ls, " | "))
	} else {
		r.Bad(rule, p.FnName(cs)+": session cookie Secure", p.Pos(cs.Pos()), "Secure attribute not set")
	}
	// default provider
	dp := p.MustFunc("samlsp", "", "DefaultSessionProvider")
	fc2 := a.Ctx(dp)
	r.Fn(p.FnName(dp))
	lf2 := litFields(dp, modPath+"/samlsp", "CookieSessionProvider")
	okH := false
	if len(lf2["HTTPOnly"]) == 1 {
		if v, ok := constBool(lf2["HTTPOnly"][0].Val); ok && v {
			okH = true
		}
	}
	r.Check(okH, rule, p.FnName(dp)+": default session provider sets HTTPOnly = true", p.Pos(dp.Pos()), "constant true", "the default session cookie is readable from scripts")
	okS := false
	sdesc := ""
	if len(lf2["Secure"]) == 1 {
		sdesc = fc2.AP(lf2["Secure"][0].Val)
		okS = strings.Contains(sdesc, "URL.Scheme") && strings.Contains(sdesc, `"https"`) && !strings.Contains(sdesc, "||") && !strings.Contains(sdesc, "!=")
	}
	r.Check(okS, rule, p.FnName(dp)+": default session provider sets Secure on https deployments", p.Pos(dp.Pos()), sdesc, "Secure default is "+sdesc)
	// tracking cookie
	tr := p.MustFunc("samlsp", "CookieRequestTracker", "TrackRequest")
	fc3 := a.Ctx(tr)
	r.Fn(p.FnName(tr))
	lf3 := litFieldsDeep(p, tr, "net/http", "Cookie")
	okT := false
	if len(lf3["HttpOnly"]) == 1 {
		if v, ok := constBool(lf3["HttpOnly"][0].Val); ok && v {
			okT = true
		}
	}
	r.Check(okT, rule, p.FnName(tr)+": tracking cookie is HttpOnly", p.Pos(tr.Pos()), "constant true", "tracking cookie readable from scripts")
	get := func(f string) string {
		if len(lf3[f]) == 1 {
			return apInCaller(fc3, lf3[f][0].Val, lf3[f][0].Parent())
		}
		return ""
	}
	sec, path, name := get("Secure"), get("Path"), get("Name")
	r.Check(strings.Contains(sec, "AcsURL.Scheme") && strings.Contains(sec, `"https"`) && !strings.Contains(sec, "||") && !strings.Contains(sec, "!="), rule, p.FnName(tr)+": tracking cookie Secure on https ACS", p.Pos(tr.Pos()), sec, "Secure is "+sec)
	r.Check(strings.HasSuffix(path, "AcsURL.Path"), rule, p.FnName(tr)+": tracking cookie scoped to the ACS path", p.Pos(tr.Pos()), path, "Path is "+path)
	// the name is the prefix followed by the index that is signed into the cookie's value: the Index field of the
	// encoded record, or the very value stored into that field
	okName := strings.Contains(name, ".NamePrefix+") && strings.Contains(name, ".Index")
	if !okName && strings.Contains(name, ".NamePrefix+") {
		for _, st := range litFields(tr, modPath+"/samlsp", "TrackedRequest")["Index"] {
			if idx := fc3.AP(st.Val); strings.HasSuffix(name, ".NamePrefix+"+idx+")") {
				okName = true
			}
		}
	}
	r.Check(okName, rule, p.FnName(tr)+": tracking cookie named prefix + index", p.Pos(tr.Pos()), name, "Name is "+name)
}

// litFieldsDeep: the stores into the fields of the composite literals of the given type built in fn, or, when fn builds
// none, in the unexported helpers of its package it calls (the literal moved into newCookie(...)).
func litFieldsDeep(p *Prog, fn *ssa.Function, pkg, typ string) map[string][]*ssa.Store {
	lf := litFields(fn, pkg, typ)
	if len(lf) > 0 {
		return lf
	}
	for _, h := range helperRegion(p, fn, 2) {
		if h == fn || !p.InLibrary(h) {
			continue
		}
		for k, v := range litFields(h, pkg, typ) {
			lf[k] = append(lf[k], v...)
		}
	}
	return lf
}

// boolLeaves: leaves of a boolean or/and expression lowered to phis.
func boolLeaves(v ssa.Value, seen map[ssa.Value]bool) []ssa.Value {
	if seen[v] {
		return nil
	}
	seen[v] = true
	switch x := v.(type) {
	case *ssa.Phi:
		var out []ssa.Value
		for i, e := range x.Edges {
			if c, ok := e.(*ssa.Const); ok && c.Value != nil && c.Value.Kind() == constant.Bool {
				// short-circuit constant: the deciding condition is the branch condition of the predecessor
				pred := x.Block().Preds[i]
				if iff, ok := pred.Instrs[len(pred.Instrs)-1].(*ssa.If); ok {
					out = append(out, boolLeaves(iff.Cond, seen)...)
				}
				continue
			}
			out = append(out, boolLeaves(e, seen)...)
		}
		return out
	}
	return []ssa.Value{v}
}

func checkLifetime(r *Report, p *Prog, rule string) {
	for _, name := range []string{"DefaultTrackedRequestCodec", "DefaultRequestTracker"} {
		fn := p.MustFunc("samlsp", "", name)
		a := NewAnalysis(p)
		fc := a.Ctx(fn)
		r.Fn(p.FnName(fn))
		tn := "JWTTrackedRequestCodec"
		if name == "DefaultRequestTracker" {
			tn = "CookieRequestTracker"
		}
		lf := litFields(fn, modPath+"/samlsp", tn)
		ap := ""
		if len(lf["MaxAge"]) == 1 {
			ap = fc.AP(lf["MaxAge"][0].Val)
		}
		r.Check(ap == "g:saml.MaxIssueDelay", rule, p.FnName(fn)+": tracking lifetime = saml.MaxIssueDelay", p.Pos(fn.Pos()), ap, "MaxAge is "+ap+" (expected exactly the MaxIssueDelay variable)")
	}
	enc := p.MustFunc("samlsp", "JWTTrackedRequestCodec", "Encode")
	a := NewAnalysis(p)
	r.Fn(p.FnName(enc))
	lf := litFieldsDeep(p, enc, jwtPath, "RegisteredClaims")
	cons := p.FnName(enc) + ": tracking token expires at TimeNow() + 1*MaxAge"
	if len(lf["ExpiresAt"]) != 1 {
		r.Bad(rule, cons, p.Pos(enc.Pos()), "ExpiresAt not set exactly once")
		return
	}
	v := lf["ExpiresAt"][0].Val
	home := lf["ExpiresAt"][0].Parent()
	hfc := a.Ctx(home)
	if home != enc {
		// the claims are built by a constructor helper: seen with its parameters bound to what the encoder hands it
		for _, ci := range callsTo(enc, home.String()) {
			if c, isCall := ci.(*ssa.Call); isCall {
				hfc = a.Ctx(enc).inlineCtx(home, c.Call.Args, c)
			}
		}
	}
	vfc, vv := hfc.valueOfPureCall(v)
	if c, ok := vv.(*ssa.Call); ok && c.Call.StaticCallee() != nil && strings.HasSuffix(c.Call.StaticCallee().String(), "NewNumericDate") {
		tt := vfc.TimeTermOf(c.Call.Args[0])
		base := outOfLiteral(tt.BaseV)
		if home != enc {
			// the claims are built by a constructor helper: the instant it is handed, in the encoder's terms
			if cv := paramFieldInCaller(enc, home, base); cv != nil {
				base = cv
			}
		}
		src := valueSources(p, enc, base, 0, map[string]bool{})
		ok := len(src) == 1 && src[0] == "call through saml.TimeNow" && tt.Const == 0 && !tt.Opaque && len(tt.Coef) == 1
		for k, cf := range tt.Coef {
			if !strings.HasSuffix(k, ".MaxAge") || cf != 1 {
				ok = false
			}
		}
		r.Check(ok, rule, cons, p.InstrPos(lf["ExpiresAt"][0]), tt.String(), "expiry is "+tt.String()+" from "+strings.Join(src, ","))
	} else {
		r.Bad(rule, cons, p.InstrPos(lf["ExpiresAt"][0]), "ExpiresAt is not a NumericDate of an instant")
	}
}

// checkStopTracking: completing a flow clears exactly the tracking cookie named by the index it was
// given — every cookie written by StopTrackingRequest is the one looked up as prefix + index.
func checkStopTracking(r *Report, p *Prog, rule string) {
	fn := p.MustFunc("samlsp", "CookieRequestTracker", "StopTrackingRequest")
	a := NewAnalysis(p)
	fc := a.Ctx(fn)
	r.Fn(p.FnName(fn))
	n := 0
	for _, b := range fn.Blocks {
		for _, in := range b.Instrs {
			c, ok := in.(*ssa.Call)
			if !ok || !calleeIs(c, "net/http.SetCookie") {
				continue
			}
			n++
			ck := c.Call.Args[1]
			ap := fc.AP(ck)
			cons := p.FnName(fn) + ": only the cookie of the completed flow is cleared"
			ok2 := false
			// a copy of the looked-up cookie (expired := *cookie; ... SetCookie(w, &expired)) is that cookie
			if al, isA := ck.(*ssa.Alloc); isA && al.Referrers() != nil {
				for _, rf := range *al.Referrers() {
					if st, isS := rf.(*ssa.Store); isS && st.Addr == ssa.Value(al) {
						if ld, isL := st.Val.(*ssa.UnOp); isL && ld.Op == token.MUL {
							ck = ld.X
						}
					}
				}
			}
			if ex, okx := ck.(*ssa.Extract); okx && ex.Index == 0 {
				if cc, okc := ex.Tuple.(*ssa.Call); okc && calleeIs(cc, "(*net/http.Request).Cookie") {
					name := fc.AP(cc.Call.Args[1])
					if strings.Contains(name, ".NamePrefix+p:") {
						ok2 = true
					}
				}
			}
			r.Check(ok2, rule, cons, p.InstrPos(in), "cookie looked up as prefix + index parameter", "a cookie other than the one named by the given index is rewritten: "+ap+" (other pending flows lose their tracking cookie)")
		}
	}
	if n == 0 {
		r.Bad(rule, p.FnName(fn)+": cookie cleared", p.Pos(fn.Pos()), "StopTrackingRequest does not clear any cookie")
	}
}

// isMapLookupOf: v is m[key] (or its value component) for the same map and key values.
func isMapLookupOf(v ssa.Value, m, key ssa.Value) bool {
	if ex, ok := v.(*ssa.Extract); ok {
		v = ex.Tuple
	}
	lk, ok := v.(*ssa.Lookup)
	if !ok {
		return false
	}
	same := func(a, b ssa.Value) bool {
		if a == b {
			return true
		}
		if ca, ok := a.(*ssa.Const); ok {
			if cb, ok := b.(*ssa.Const); ok {
				return constString(ca) == constString(cb)
			}
		}
		la, ok1 := a.(*ssa.UnOp)
		lb, ok2 := b.(*ssa.UnOp)
		return ok1 && ok2 && la.X == lb.X
	}
	return same(lk.X, m) && same(lk.Index, key)
}

// checkClaimsValid: the parser validates exp/nbf/iat by calling the claims value's Valid method. The trusted base is
// golang-jwt's own (promoted from the embedded registered claims). A Valid method the module defines on the claims
// struct replaces it: it must then hand the decision to the embedded one — every nil return under the nil result of
// the embedded claims' Valid — or the token lifetime is whatever the module's own arithmetic says.
func checkClaimsValid(r *Report, p *Prog, rule string, dec *ssa.Function, cs *types.Named) {
	cons := fmt.Sprintf("%s: time validity of %s is judged by golang-jwt", p.FnName(dec), cs.Obj().Name())
	var m *types.Func
	for _, t := range []types.Type{cs, types.NewPointer(cs)} {
		ms := types.NewMethodSet(t)
		if sel := ms.Lookup(nil, "Valid"); sel != nil {
			if f, ok := sel.Obj().(*types.Func); ok {
				m = f
			}
		}
	}
	if m == nil {
		r.Bad(rule, cons, p.Pos(dec.Pos()), "the claims type has no Valid method")
		return
	}
	if m.Pkg() == nil || !strings.HasPrefix(m.Pkg().Path(), modPath) {
		r.OK(rule, cons, p.Pos(dec.Pos()), "Valid is "+m.FullName()+" (promoted from the embedded claims)")
		return
	}
	fn := p.SSA.FuncValue(m)
	if fn == nil || len(fn.Blocks) == 0 {
		r.Bad(rule, cons, p.Pos(dec.Pos()), "module-defined Valid method without a body")
		return
	}
	r.Fn(p.FnName(fn))
	a := NewAnalysis(p)
	fc := a.Ctx(fn)
	fc.ensureConds()
	var inner []string
	for _, b := range fn.Blocks {
		for _, in := range b.Instrs {
			c, ok := in.(*ssa.Call)
			if !ok || c.Call.StaticCallee() == nil {
				continue
			}
			sc := c.Call.StaticCallee()
			if sc.Name() == "Valid" && sc.Pkg != nil && strings.Contains(sc.Pkg.Pkg.Path(), "golang-jwt") {
				inner = append(inner, "isnil("+fc.AP(c)+")")
			}
		}
	}
	ok := len(inner) > 0
	for _, ret := range fc.Returns() {
		if len(ret.Results) != 1 {
			continue
		}
		// a return that may be nil must lie under the embedded Valid's nil result
		if _, isCall := Resolve(ret.Results[0]).(*ssa.Call); isCall && len(inner) > 0 && "isnil("+fc.AP(Resolve(ret.Results[0]))+")" == inner[0] {
			continue // return c.RegisteredClaims.Valid()
		}
		under := false
		for _, nm := range inner {
			if a.B.HasVar(nm) && fc.Implied(ret.Block(), a.B.Var(nm)) {
				under = true
			}
		}
		if !isNilConst(Resolve(ret.Results[0])) {
			// a non-constant error value: nil only if some tested error was nil; accept when it is the embedded call's own result
			if under {
				continue
			}
			if _, isPhi := ret.Results[0].(*ssa.Phi); !isPhi {
				if _, isC := Resolve(ret.Results[0]).(*ssa.Call); isC {
					continue // an error constructed here: not nil
				}
			}
		}
		if !under {
			ok = false
		}
	}
	r.Check(ok, rule, cons, p.Pos(fn.Pos()), "the module's Valid returns nil only under the embedded claims' Valid == nil", "the claims type defines its own Valid ("+p.FnName(fn)+"), which golang-jwt calls instead of the registered claims' one, and it does not defer to it: expiry and not-before are whatever this method computes (a leeway written here extends the token's life)")
}

// checkIDPInitiatedDefault: C17.ids, configuration part. "With IdP-initiated login disabled" is the application's
// choice: wherever samlsp builds a saml.ServiceProvider, its AllowIDPInitiated is the Options field of that name itself
// (no other option, default or derived condition switches unsolicited responses on).
func checkIDPInitiatedDefault(r *Report, p *Prog, rule string) {
	n := 0
	for _, fn := range p.modFns {
		if !p.InLibrary(fn) || fn.Pkg == nil || fn.Pkg.Pkg.Path() != modPath+"/samlsp" {
			continue
		}
		sts := litFields(fn, modPath, "ServiceProvider")["AllowIDPInitiated"]
		if len(sts) == 0 {
			continue
		}
		a := NewAnalysis(p)
		fc := a.Ctx(fn)
		r.Fn(p.FnName(fn))
		for _, st := range sts {
			n++
			ap := fc.AP(st.Val)
			ok := strings.HasSuffix(ap, "Options.AllowIDPInitiated") || strings.HasSuffix(ap, ".AllowIDPInitiated") && !strings.Contains(ap, "phi#") && !strings.Contains(ap, "(")
			r.Check(ok, rule, fmt.Sprintf("%s: ServiceProvider.AllowIDPInitiated is the application's option", p.FnName(fn)), p.InstrPos(st), "<- "+ap, "AllowIDPInitiated is set from "+ap+": unsolicited responses are accepted in a configuration that did not ask for them (no tracking cookie is then required, and a RelayState that names no cookie becomes the redirect target)")
		}
	}
	if n == 0 {
		panic(unresolved{"role: samlsp function that builds the saml.ServiceProvider (store to AllowIDPInitiated)"})
	}
}

// lastResultIsBool: the function reports success in a trailing bool result (value, ok).
func lastResultIsBool(f *ssa.Function) bool {
	rs := f.Signature.Results()
	return rs.Len() >= 2 && isBoolType(rs.At(rs.Len()-1).Type())
}

// paramFieldInCaller: v, in the helper home that caller calls at exactly one site, is (a field of) one of home's
// parameters; the value the caller passes for it: the argument itself, or, for a field of a struct argument built as a
// literal in the caller, what the literal stores into the field. nil when it cannot be told.
func paramFieldInCaller(caller, home *ssa.Function, v ssa.Value) ssa.Value {
	if home == nil || home == caller {
		return nil
	}
	var site *ssa.Call
	n := 0
	for _, b := range caller.Blocks {
		for _, in := range b.Instrs {
			if c, ok := in.(*ssa.Call); ok && c.Call.StaticCallee() == home {
				site = c
				n++
			}
		}
	}
	if n != 1 {
		return nil
	}
	argOf := func(prm ssa.Value) ssa.Value {
		for i, q := range home.Params {
			if ssa.Value(q) == prm && i < len(site.Call.Args) {
				return site.Call.Args[i]
			}
		}
		return nil
	}
	switch x := v.(type) {
	case *ssa.Parameter:
		return argOf(x)
	case *ssa.Field:
		if arg := argOf(x.X); arg != nil {
			if ld, ok := arg.(*ssa.UnOp); ok && ld.Op == token.MUL {
				return literalFieldValue(ld.X, []int{x.Field}, 0)
			}
		}
	case *ssa.UnOp:
		if fa, ok := x.X.(*ssa.FieldAddr); ok && x.Op == token.MUL {
			// the parameter spilled to a local
			if al, ok := fa.X.(*ssa.Alloc); ok {
				if sv := wholeStore(al); sv != nil {
					if arg := argOf(sv); arg != nil {
						if ld, ok := arg.(*ssa.UnOp); ok && ld.Op == token.MUL {
							return literalFieldValue(ld.X, []int{fa.Field}, 0)
						}
					}
				}
			}
		}
	}
	return nil
}

// phiSelectCond: the condition under which v (a value merged by phis of fc.Fn) is want: the disjunction, over the phi edges
// that carry want, of the condition of the edge. nil when v is not built from want by phis.
func phiSelectCond(fc *FuncCtx, v, want ssa.Value, depth int) *bddNode {
	B := fc.A.B
	if v == want {
		return B.True
	}
	ph, ok := v.(*ssa.Phi)
	if !ok || depth > 6 {
		return nil
	}
	fc.ensureConds()
	acc := B.False
	found := false
	for i, e := range ph.Edges {
		sub := phiSelectCond(fc, e, want, depth+1)
		if sub == nil {
			continue
		}
		found = true
		pred := ph.Block().Preds[i]
		acc = B.Or(acc, B.And(B.And(fc.Cond(pred), fc.edgeCond(pred, ph.Block())), sub))
	}
	if !found {
		return nil
	}
	return acc
}

// trackedLookupCall: the GetTrackedRequest call whose first result v was read from (v = (*result).Field...).
func trackedLookupCall(v ssa.Value) *ssa.Call {
	for i := 0; i < 8 && v != nil; i++ {
		switch x := v.(type) {
		case *ssa.UnOp:
			v = x.X
		case *ssa.FieldAddr:
			v = x.X
		case *ssa.Field:
			v = x.X
		case *ssa.Extract:
			v = x.Tuple
		case *ssa.Call:
			if x.Call.IsInvoke() && x.Call.Method.Name() == "GetTrackedRequest" {
				return x
			}
			if sc := x.Call.StaticCallee(); sc != nil && sc.Name() == "GetTrackedRequest" {
				return x
			}
			return nil
		default:
			return nil
		}
	}
	return nil
}

// checkTrackIndex: every flow is tracked under an index of its own: each value the Index of the tracked request can take
// in TrackRequest (with its helpers) is the text of fresh random bytes (at least 16) or a value used only under "it is
// not empty" (a custom relay state replaces the random index only when there is one). An empty index names every such
// flow's cookie alike (prefix + "") and sends no RelayState, so the flows overwrite each other and complete at the
// default URL.
func checkTrackIndex(r *Report, p *Prog, rule string) {
	tr := p.MustFunc("samlsp", "CookieRequestTracker", "TrackRequest")
	a := NewAnalysis(p)
	B := a.B
	rg := NewRegion(p, tr, 2)
	n := 0
	for _, c := range rg.all {
		cfc := rg.Ctx(a, c)
		cfc.ensureConds()
		for _, st := range litFields(c.fn, modPath+"/samlsp", "TrackedRequest")["Index"] {
			r.Fn(p.FnName(c.fn))
			for _, o := range rg.Origins(RV{V: st.Val, C: c}) {
				n++
				ofc := rg.Ctx(a, o.C)
				ap := ofc.AP(o.V)
				cons := fmt.Sprintf("%s: tracked index %s is never empty", p.FnName(tr), ap)
				ok := false
				why := ""
				if call, isCall := o.V.(*ssa.Call); isCall && call.Call.StaticCallee() != nil && strings.HasSuffix(call.Call.StaticCallee().String(), "EncodeToString") {
					// the text of a byte string of known, non-zero length (that the bytes are random is C12.ids / C17.cookie-flags)
					for _, arg := range call.Call.Args {
						k := int64(0)
						switch x := arg.(type) {
						case *ssa.Call:
							if x.Call.StaticCallee() != nil && p.InLibrary(x.Call.StaticCallee()) && len(x.Call.Args) > 0 {
								k, _ = constInt(x.Call.Args[len(x.Call.Args)-1])
							}
						case *ssa.Slice:
							if at, isArr := derefType(x.X.Type()).Underlying().(*types.Array); isArr && x.Low == nil {
								k = at.Len()
								if x.High != nil {
									k, _ = constInt(x.High)
								}
							}
						case *ssa.MakeSlice:
							k, _ = constInt(x.Len)
						}
						if k >= 16 {
							ok, why = true, fmt.Sprintf("text of %d bytes", k)
						}
					}
				}
				if !ok {
					cnd := cfc.AbsCond(st.Block())
					for _, vb := range o.Via {
						vfc := rg.Ctx(a, vb.C)
						vfc.ensureConds()
						cnd = B.And(cnd, vfc.AbsCond(vb.B))
					}
					if nm := "empty(" + ap + ")"; B.HasVar(nm) && B.Implies(cnd, B.Not(B.Var(nm))) {
						ok, why = true, "used only when it is not empty"
					}
				}
				r.Check(ok, rule, cons, p.InstrPos(st), why, "the index can be the empty string (a relay state function that declines a request): the tracking cookie is then named by the prefix alone, no RelayState is sent, and concurrent flows share one cookie")
			}
		}
	}
	if n == 0 {
		r.Undecided(rule, p.FnName(tr)+": index of the tracked request", p.Pos(tr.Pos()), "no store to TrackedRequest.Index found")
	}
}
