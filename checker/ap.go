package main

// Canonical access paths. go/ssa performs no common-subexpression elimination, so two reads of
// assertion.Subject are two SSA values; rules compare canonical access paths instead.

import (
	"fmt"
	"go/constant"
	"go/token"
	"go/types"
	"sort"
	"strings"

	"golang.org/x/tools/go/ssa"
)

// getter names treated as pure for value identity (receiver + arguments determine the result).
var pureMethodNames = map[string]bool{
	"String": true, "Root": true, "Metadata": true, "Unix": true, "Alg": true, "Public": true,
	"BlockSize": true, "NonceSize": true, "KeySize": true, "Algorithm": true, "Text": true,
	"NamespaceURI": true, "Len": true, "Bytes": true, "Hostname": true, "Query": true, "Get": true,
	"PathValue": true, "Context": true, "Error": true, "Encode": true, "UTC": true, "Round": true,
	"Add": true, "Seconds": true, "SelectAttrValue": true, "Hash": true, "Cookie": true,
	"FormValue": true, "Cookies": true, "ChildElements": true, "Overhead": true, "Size": true,
	"GetAttributes": true, "Index": true, "EncodeToString": true, "Before": true, "After": true, "Equal": true, "IsZero": true,
	"Cmp": true, "Sub": true,
}

var pureFuncs = map[string]bool{
	"strconv.Itoa": true, "strings.TrimPrefix": true, "strings.TrimSpace": true, "strings.TrimSuffix": true,
	"strings.HasPrefix": true, "strings.HasSuffix": true, "strings.Contains": true, "strings.EqualFold": true,
	"strings.ToLower": true, "strings.ToUpper": true, "strings.Join": true,
	"net/url.QueryEscape": true, "fmt.Sprintf": true, "bytes.Equal": true,
	"time.Duration": true, "encoding/hex.EncodeToString": true,
}

// allocOnlyFuncs: dependency functions whose only effect is to allocate their result.
var allocOnlyFuncs = map[string]bool{"errors.New": true, "fmt.Errorf": true, "github.com/golang-jwt/jwt/v4.NewNumericDate": true}

// isPureModuleFunc: a module function with no side effects (no stores to memory it did not allocate, no
// calls except to pure functions, no map updates). firstSet is the typical instance.
func (a *Analysis) isPureModuleFunc(fn *ssa.Function) bool {
	if a.Opaque != nil && a.Opaque(fn) {
		return false
	}
	if v, ok := a.pureMemo[fn]; ok {
		return v
	}
	r := a.pureFn(fn, false)
	a.pureMemo[fn] = r
	return r
}

// isPureValueFunc: like isPureModuleFunc, but the function may refuse its input with an explicit panic (an accessor with
// a precondition): what it returns when it returns is still an expression over its arguments.
func (a *Analysis) isPureValueFunc(fn *ssa.Function) bool {
	if a.isPureModuleFunc(fn) {
		return true
	}
	if a.pureVMemo == nil {
		a.pureVMemo = map[*ssa.Function]bool{}
	}
	if v, ok := a.pureVMemo[fn]; ok {
		return v
	}
	a.pureVMemo[fn] = false
	r := a.pureFn(fn, true)
	a.pureVMemo[fn] = r
	return r
}

func (a *Analysis) pureFn(fn *ssa.Function, allowPanic bool) bool {
	if !allowPanic {
		a.pureMemo[fn] = false // recursion guard
	}
	// (a function literal that is only ever called, directly, by the function that defines it - a local helper such
	// as `fail := func(err error) (T, error) {...}` - may read the variables it captures; assigning one is a store
	// through a non-local address and makes it impure like any other)
	if !a.P.InModule(fn) || len(fn.Blocks) == 0 || len(fn.FreeVars) > 0 && !localHelperClosure(fn) {
		return false
	}
	for _, b := range fn.Blocks {
		for _, in := range b.Instrs {
			switch x := in.(type) {
			case *ssa.Store:
				if !addrIsLocal(x.Addr) {
					return false
				}
			case *ssa.Panic:
				if !allowPanic {
					return false
				}
			case *ssa.MapUpdate, *ssa.Send, *ssa.Go, *ssa.Defer, *ssa.RunDefers:
				return false
			case ssa.CallInstruction:
				c := x.Common()
				if bi, ok := c.Value.(*ssa.Builtin); ok {
					if bi.Name() == "len" || bi.Name() == "cap" {
						continue
					}
					return false
				}
				// an accessor of an interface value (block.BlockSize(), aead.NonceSize()): named by its receiver and name
				if c.IsInvoke() && pureMethodNames[c.Method.Name()] && !returnsError(c.Signature()) {
					continue
				}
				sc := c.StaticCallee()
				if sc == nil {
					return false
				}
				if pureFuncs[sc.String()] || allocOnlyFuncs[sc.String()] {
					continue
				}
				if localBuilderMethod(c) {
					continue // writes into a strings.Builder / bytes.Buffer that is a local of this call
				}
				if !a.P.InModule(sc) && sc.Signature.Recv() != nil && pureMethodNames[sc.Name()] && !returnsError(sc.Signature) {
					continue // getter of a dependency type (time.Time.Add, url.URL.String)
				}
				if allowPanic && sc.Signature.Recv() != nil && pureMethodNames[sc.Name()] && !returnsError(sc.Signature) {
					continue // a getter of a module type, named as such by callAP (req.IDP.Metadata())
				}
				if allowPanic {
					if !a.isPureValueFunc(sc) {
						return false
					}
				} else if !a.isPureModuleFunc(sc) {
					return false
				}
			}
		}
	}
	return true
}

// addrIsLocal: the address lies in memory allocated by this function call (a local, or an element/field of one).
func addrIsLocal(v ssa.Value) bool {
	for i := 0; i < 6; i++ {
		switch x := v.(type) {
		case *ssa.Alloc:
			return true
		case *ssa.IndexAddr:
			v = x.X
		case *ssa.FieldAddr:
			v = x.X
		default:
			return false
		}
	}
	return false
}

func constString(c *ssa.Const) string {
	if c.Value == nil {
		return "nil"
	}
	switch c.Value.Kind() {
	case constant.String:
		return fmt.Sprintf("c:%q", constant.StringVal(c.Value))
	case constant.Bool:
		return fmt.Sprintf("c:%v", constant.BoolVal(c.Value))
	default:
		return "c:" + c.Value.ExactString()
	}
}

// rootName assigns the canonical root for a parameter / local / free variable of fc.Fn.
func (fc *FuncCtx) rootName(v ssa.Value) string {
	if s, ok := fc.Env[v]; ok {
		return s
	}
	if fc.roots == nil {
		fc.computeRoots()
	}
	if s, ok := fc.roots[v]; ok {
		return fc.prefix + s
	}
	return fc.prefix + "v:" + v.Name()
}

func rootTypeName(t types.Type) string {
	n := namedOf(t)
	if n == nil || n.Obj() == nil || n.Obj().Pkg() == nil {
		return ""
	}
	if _, ok := n.Underlying().(*types.Struct); !ok {
		return ""
	}
	if !strings.HasPrefix(n.Obj().Pkg().Path(), modPath) {
		return ""
	}
	return n.Obj().Name()
}

func (fc *FuncCtx) computeRoots() {
	fc.roots = map[ssa.Value]string{}
	type ent struct {
		v    ssa.Value
		tn   string
		name string
		kind string
	}
	var ents []ent
	for _, p := range fc.Fn.Params {
		ents = append(ents, ent{p, rootTypeName(p.Type()), p.Name(), "p"})
	}
	for _, p := range fc.Fn.FreeVars {
		ents = append(ents, ent{p, rootTypeName(p.Type()), p.Name(), "fv"})
	}
	for _, b := range fc.Fn.Blocks {
		for _, in := range b.Instrs {
			if al, ok := in.(*ssa.Alloc); ok {
				// the spill slot of a parameter (address taken, or captured by a function literal) is the parameter
				if sv := wholeStore(al); sv != nil {
					if _, isP := sv.(*ssa.Parameter); isP {
						continue
					}
				}
				if sv := capturedSingleStore(al); sv != nil {
					if _, isP := sv.(*ssa.Parameter); isP {
						continue
					}
				}
				if rangeElemCopy(al) != nil {
					continue
				}
				nm := al.Comment
				if nm == "" || nm == "complit" || nm == "new" || nm == "varargs" || nm == "slicelit" || nm == "makeslice" {
					nm = al.Name()
				}
				ents = append(ents, ent{al, rootTypeName(al.Type()), nm, "l"})
			}
		}
	}
	count := map[string]int{}
	for _, e := range ents {
		if e.tn != "" {
			count[e.tn]++
		}
	}
	for _, e := range ents {
		switch {
		case e.tn != "" && count[e.tn] == 1:
			fc.roots[e.v] = e.tn
		case e.tn != "":
			fc.roots[e.v] = e.tn + "#" + e.name
		default:
			fc.roots[e.v] = e.kind + ":" + e.name
		}
	}
}

func fieldName(t types.Type, idx int) string {
	st, ok := derefType(t).Underlying().(*types.Struct)
	if !ok || idx >= st.NumFields() {
		return fmt.Sprintf("#%d", idx)
	}
	return st.Field(idx).Name()
}

// isInduction: value derived from a loop phi (index of a range loop).
func isInduction(v ssa.Value) bool {
	for i := 0; i < 4; i++ {
		switch x := v.(type) {
		case *ssa.Phi:
			return true
		case *ssa.BinOp:
			if _, ok := x.Y.(*ssa.Const); ok {
				v = x.X
				continue
			}
			return false
		case *ssa.Convert:
			v = x.X
			continue
		case *ssa.Extract:
			if _, ok := x.Tuple.(*ssa.Next); ok {
				return true
			}
			return false
		case *ssa.Call:
			// the index slices.Index / slices.IndexFunc selected: "the element found"
			if sc := x.Call.StaticCallee(); sc != nil && (strings.HasPrefix(sc.String(), "slices.Index[") || strings.HasPrefix(sc.String(), "slices.IndexFunc[")) {
				return true
			}
			return false
		default:
			return false
		}
	}
	return false
}

// AP returns the canonical access path of v in this context.
func (fc *FuncCtx) AP(v ssa.Value) string {
	if s, ok := fc.apMemo[v]; ok {
		return s
	}
	if fc.apBusy[v] {
		return fc.prefix + "v:" + v.Name()
	}
	fc.apBusy[v] = true
	s := fc.ap0(v)
	delete(fc.apBusy, v)
	// fields of a parameter object that a rule has named by their role (see AliasSlots)
	// (a callee analysed as part of the function sees the object through its caller's names)
	for c := fc; c != nil; c = c.parent {
		for from, to := range c.alias {
			if s == from {
				s = to
			} else if strings.HasPrefix(s, from+"[") || strings.HasPrefix(s, from+".") {
				s = to + s[len(from):]
			}
		}
	}
	fc.apMemo[v] = s
	return s
}

// AliasSlots: names the fields of an unexported struct parameter (a parameter object) of fc.Fn by the type-based role
// names the rules use for plain parameters ("now", "ids", "sigreq", ...), so that grouping parameters into a struct
// leaves the atoms unchanged.
func (fc *FuncCtx) AliasSlots(names map[string]string) {
	for ts, name := range names {
		ts := ts
		slot, ok := slotOf(fc.Fn, func(t types.Type) bool {
			if types.TypeString(t, func(pk *types.Package) string { return pk.Name() }) == ts {
				return true
			}
			return ts == "saml.signatureRequirement" && isSigReqType(t) // by role: the type may have been renamed
		})
		if !ok || slot.isParam() {
			continue
		}
		if fc.alias == nil {
			fc.alias = map[string]string{}
		}
		// the access path of the field, whether or not this function reads it itself (it may only hand the object on)
		from := fc.rootName(fc.Fn.Params[slot.Param])
		t := fc.Fn.Params[slot.Param].Type()
		for _, k := range slot.Path {
			from += "." + fieldName(t, k)
			if st, ok := derefType(t).Underlying().(*types.Struct); ok && k < st.NumFields() {
				t = st.Field(k).Type()
			}
		}
		fc.alias[from] = name
		if v := slotValueIn(fc.Fn, slot); v != nil {
			delete(fc.apMemo, v)
			fc.alias[fc.ap0(v)] = name
		}
	}
}

func (fc *FuncCtx) uniq(kind string, v ssa.Value) string {
	pfx := fc.prefix
	if pfx == "" {
		// top-level context: SSA value names are only unique within a function
		pfx = fc.A.P.FnName(fc.Fn) + "/"
	}
	return fmt.Sprintf("%s#%s%s", kind, pfx, v.Name())
}

func (fc *FuncCtx) ap0(v ssa.Value) string {
	// a field of a struct parameter whose argument, at the call this context was entered through, is a literal the caller
	// built (a parameter object): the value the caller stored into that field
	if fc.parent != nil {
		switch v.(type) {
		case *ssa.Field, *ssa.UnOp:
			if prm, path, ok := fieldChainOf(fc.Fn, v); ok && len(path) > 0 && unexportedStruct(prm.Type()) != nil {
				if av := fc.argVal[prm]; av != nil {
					if ld, ok := av.(*ssa.UnOp); ok && ld.Op == token.MUL {
						if _, isLocal := ld.X.(*ssa.Alloc); isLocal {
							if val := literalFieldValue(ld.X, path, 0); val != nil {
								return fc.parent.AP(val)
							}
							// a struct-valued field stored whole (status: resp.Status): the rest of the path is read from that value
							for k := len(path) - 1; k >= 1; k-- {
								val := literalFieldValue(ld.X, path[:k], 0)
								if val == nil {
									continue
								}
								out := fc.parent.AP(val)
								t := val.Type()
								okPath := true
								for _, f := range path[k:] {
									st, isSt := derefType(t).Underlying().(*types.Struct)
									if !isSt || f >= st.NumFields() {
										okPath = false
										break
									}
									out += "." + st.Field(f).Name()
									t = st.Field(f).Type()
								}
								if okPath {
									return out
								}
								break
							}
						}
					}
				}
			}
		}
	}
	switch x := v.(type) {
	case *ssa.Parameter, *ssa.FreeVar:
		return fc.rootName(v)
	case *ssa.Alloc:
		// a local that only ever receives one whole-value store (range element copy, loop variable copy)
		// is named by the value stored into it
		if sv := wholeStore(x); sv != nil {
			if _, isConst := sv.(*ssa.Const); !isConst {
				return fc.AP(sv)
			}
		}
		if sv := capturedSingleStore(x); sv != nil {
			if _, isP := sv.(*ssa.Parameter); isP {
				return fc.AP(sv)
			}
		}
		// the per-iteration copy of a range element (whose address may be kept): named by the element
		if sv := rangeElemCopy(x); sv != nil {
			return fc.AP(sv)
		}
		return fc.rootName(v)
	case *ssa.Global:
		pk := ""
		if x.Pkg != nil {
			pk = x.Pkg.Pkg.Name()
		}
		return "g:" + pk + "." + x.Name()
	case *ssa.Const:
		return constString(x)
	case *ssa.Function:
		return "fn:" + fc.A.P.FnName(x)
	case *ssa.FieldAddr:
		return fc.AP(x.X) + "." + fieldName(x.X.Type(), x.Field)
	case *ssa.Field:
		// a field of the struct a module helper returns: named like a result of a tuple-returning helper
		if c, idx, ok := callComponent(x); ok {
			if ap := fc.inlinedResultAP(c, idx); ap != "" {
				return ap
			}
			if ap := fc.pureResultAP(c, idx); ap != "" {
				return ap
			}
		}
		return fc.AP(x.X) + "." + fieldName(x.X.Type(), x.Field)
	case *ssa.UnOp:
		switch x.Op {
		case token.MUL:
			// a field of a result struct kept in a local: named like the result of a tuple-returning helper
			if c, idx, ok := callComponent(x); ok && idx < 0 {
				if ap := fc.inlinedResultAP(c, idx); ap != "" {
					return ap
				}
				if ap := fc.pureResultAP(c, idx); ap != "" {
					return ap
				}
				if ap := fc.structResultAP(c, idx); ap != "" {
					return ap
				}
			}
			// a field of a local struct that is assigned once: named by the assigned value
			if sv := fieldSingleStore(x); sv != nil {
				switch sv.(type) {
				case *ssa.Call, *ssa.Extract:
					// (the outcome of a call kept in a field: check.err = validate(..); a container made in place
					// keeps its field name)
					return fc.AP(sv)
				}
			}
			// a field of a local struct whose only assignment is one whole-struct literal: named by what the literal gives it
			if fa, ok := x.X.(*ssa.FieldAddr); ok {
				if al, ok := fa.X.(*ssa.Alloc); ok && al.Referrers() != nil {
					if sv, _ := fieldOnlyStore(x); sv != nil && (carriedValueType(x.Type()) || carrierStruct(al.Type())) {
						if _, isConst := sv.(*ssa.Const); !isConst {
							return fc.AP(sv)
						}
					}
				}
			}
			if al, ok := x.X.(*ssa.Alloc); ok {
				if sv := fc.singleStore(al, x); sv != nil {
					return fc.AP(sv)
				}
				if sv := lastStoreInBlock(al, x); sv != nil {
					return fc.AP(sv)
				}
				// a variable captured by a closure and assigned once: named by the assigned value, as in the closure
				if sv := capturedSingleStore(al); sv != nil {
					if st := storeOf(al); st != nil && (st.Block() == x.Block() || st.Block().Dominates(x.Block())) {
						return fc.AP(sv)
					}
				}
			}
			if fv, ok := x.X.(*ssa.FreeVar); ok {
				// load of a captured variable: the value its declaring function assigned (in that function's terms)
				if sv := capturedValue(x); sv != ssa.Value(x) && fv.Parent().Parent() != nil {
					if fc.parent != nil && fc.parent.Fn == fv.Parent().Parent() {
						return fc.parent.AP(sv)
					}
					return fc.A.Ctx(fv.Parent().Parent()).AP(sv)
				}
			}
			return fc.AP(x.X)
		case token.NOT:
			return "!" + fc.AP(x.X)
		case token.SUB:
			return "-" + fc.AP(x.X)
		case token.ARROW:
			return fc.uniq("recv", v)
		}
		return x.Op.String() + fc.AP(x.X)
	case *ssa.IndexAddr:
		return fc.AP(x.X) + fc.indexStr(x.Index)
	case *ssa.Index:
		return fc.AP(x.X) + fc.indexStr(x.Index)
	case *ssa.Lookup:
		// membership in a constant set written as a table (map[K]bool with true entries only): named like the comparison
		// with its keys it stands for (schemes["https": true][s] is s == "https")
		if !x.CommaOk && isBoolType(x.Type()) {
			if ents, ok := fc.tableEntries(x); ok && len(ents) > 0 && len(ents) <= 4 {
				var alts []string
				for _, e := range ents {
					if vb, isB := constBool(e.v); !isB || !vb {
						alts = nil
						break
					}
					alts = append(alts, "("+fc.AP(x.Index)+"=="+fc.AP(e.k)+")")
				}
				if len(alts) > 0 {
					sort.Strings(alts)
					out := alts[0]
					for _, q := range alts[1:] {
						out = "(" + out + "||" + q + ")"
					}
					return out
				}
			}
		}
		return fc.AP(x.X) + "[" + fc.AP(x.Index) + "]"
	case *ssa.Slice:
		// s[len(p):] of a string: the text after the prefix (the rules that rely on it also require HasPrefix(s, p))
		if x.High == nil && x.Low != nil && isStringType(x.X.Type()) {
			if la := lenArg(x.Low); la != nil && isStringType(la.Type()) {
				return "strings.TrimPrefix(" + fc.AP(x.X) + "," + fc.AP(la) + ")"
			}
		}
		if al, ok := x.X.(*ssa.Alloc); ok && al.Comment == "varargs" && x.Low == nil && x.High == nil {
			// the argument list of a variadic call: render the stored elements in order
			var parts []string
			for _, rf := range *al.Referrers() {
				if ia, ok := rf.(*ssa.IndexAddr); ok {
					for _, r2 := range *ia.Referrers() {
						if st, ok := r2.(*ssa.Store); ok {
							parts = append(parts, fc.AP(st.Val))
						}
					}
				}
			}
			return "[" + strings.Join(parts, ",") + "]"
		}
		lo, hi := "", ""
		if x.Low != nil {
			lo = fc.AP(x.Low)
		}
		if x.High != nil {
			hi = fc.AP(x.High)
		}
		if lo == "" && hi == "" {
			return fc.AP(x.X)
		}
		return fc.AP(x.X) + "[" + lo + ":" + hi + "]"
	case *ssa.Extract:
		if nx, ok := x.Tuple.(*ssa.Next); ok {
			// range over map/string: key (#1) / value (#2)
			if x.Index == 2 {
				return fc.AP(nx.Iter) + "[*]"
			}
			return fc.AP(nx.Iter) + fmt.Sprintf("[*k%d]", x.Index)
		}
		if c, ok := x.Tuple.(*ssa.Call); ok {
			// strings.CutPrefix(s, p): the remainder is strings.TrimPrefix(s, p) (the found flag is strings.HasPrefix(s, p))
			if sc := c.Call.StaticCallee(); sc != nil && x.Index == 0 && len(c.Call.Args) == 2 {
				switch sc.String() {
				case "strings.CutPrefix":
					return "strings.TrimPrefix(" + fc.AP(c.Call.Args[0]) + "," + fc.AP(c.Call.Args[1]) + ")"
				case "strings.CutSuffix":
					return "strings.TrimSuffix(" + fc.AP(c.Call.Args[0]) + "," + fc.AP(c.Call.Args[1]) + ")"
				}
			}
			if ap := fc.inlinedResultAP(c, x.Index); ap != "" {
				return ap
			}
			if ap := fc.pureResultAP(c, x.Index); ap != "" {
				return ap
			}
		}
		return fc.AP(x.Tuple) + fmt.Sprintf("#%d", x.Index)
	case *ssa.Range:
		return fc.AP(x.X)
	case *ssa.Next:
		return fc.AP(x.Iter)
	case *ssa.MakeInterface:
		return fc.AP(x.X)
	case *ssa.ChangeInterface:
		return fc.AP(x.X)
	case *ssa.ChangeType:
		return fc.AP(x.X)
	case *ssa.Convert:
		// a conversion to a narrower integer type keeps only the low bits: it is not the value it was made from
		// (byte(len(buf)) is 0 for a buffer of 256 bytes)
		if narrowsInteger(x.X.Type(), x.Type()) {
			return "trunc<" + x.Type().Underlying().String() + ">(" + fc.AP(x.X) + ")"
		}
		return fc.AP(x.X)
	case *ssa.SliceToArrayPointer:
		return fc.AP(x.X)
	case *ssa.TypeAssert:
		return fc.AP(x.X) + ".(" + types.TypeString(x.AssertedType, func(p *types.Package) string { return p.Name() }) + ")"
	case *ssa.BinOp:
		return "(" + fc.AP(x.X) + x.Op.String() + fc.AP(x.Y) + ")"
	case *ssa.Phi:
		var first string
		same := true
		n := 0
		for _, e := range x.Edges {
			if isNilConst(e) && nillable(e.Type()) {
				continue // "X or nothing" is named X
			}
			s := fc.AP(e)
			if n == 0 {
				first = s
			} else if s != first {
				same = false
			}
			n++
		}
		if same && first != "" {
			return first
		}
		// a := x; if a == "" { a = y }: the first non-empty of the two, the value of the module's firstSet helper
		if s := fc.firstSetPhi(x); s != "" {
			return s
		}
		return fc.uniq("phi", v)
	case *ssa.Call:
		// cmp.Or(a, b, ...): the first non-zero operand, the same value as the module's firstSet helper / the
		// "if a == zero { a = b }" idiom
		// the text of a local strings.Builder / bytes.Buffer written by straight-line WriteString calls is the
		// concatenation of what was written
		if parts := builderParts(x); len(parts) >= 1 {
			s := fc.AP(parts[0])
			for _, q := range parts[1:] {
				s = "(" + s + "+" + fc.AP(q) + ")"
			}
			return s
		}
		if ops := cmpOrOperands(x); len(ops) >= 2 {
			var parts []string
			for _, o := range ops {
				parts = append(parts, fc.AP(o))
			}
			return "firstSet(" + strings.Join(parts, ",") + ")"
		}
		return fc.callAP(x)
	case *ssa.MakeClosure:
		return "closure:" + fc.A.P.FnName(x.Fn.(*ssa.Function))
	case *ssa.MakeSlice, *ssa.MakeMap, *ssa.MakeChan:
		return fc.uniq("make", v)
	case *ssa.Builtin:
		return "builtin:" + x.Name()
	}
	return fc.uniq("v", v)
}

func (fc *FuncCtx) indexStr(idx ssa.Value) string {
	if c, ok := idx.(*ssa.Const); ok {
		return "[" + c.Value.ExactString() + "]"
	}
	if isInduction(idx) {
		return "[*]"
	}
	return "[" + fc.AP(idx) + "]"
}

// singleStore: if the local has exactly one Store in the function, the stored value (only when the
// store dominates the load); otherwise nil.
func (fc *FuncCtx) singleStore(al *ssa.Alloc, load *ssa.UnOp) ssa.Value {
	var st *ssa.Store
	for _, r := range *al.Referrers() {
		switch y := r.(type) {
		case *ssa.Store:
			if y.Addr == al {
				if st != nil {
					return nil
				}
				st = y
			}
		case *ssa.UnOp, *ssa.DebugRef:
		case *ssa.FieldAddr, *ssa.IndexAddr:
			return nil
		default:
			// address escapes (call argument, closure, stored elsewhere): not a simple temp
			return nil
		}
	}
	if st == nil {
		return nil
	}
	if st.Block() == load.Block() {
		for _, in := range st.Block().Instrs {
			if in == st {
				return st.Val
			}
			if in == load {
				return nil
			}
		}
	}
	if st.Block().Dominates(load.Block()) {
		return st.Val
	}
	return nil
}

func (fc *FuncCtx) callAP(x *ssa.Call) string {
	c := &x.Call
	var args []string
	for _, a := range c.Args {
		args = append(args, fc.AP(a))
	}
	if bi, ok := c.Value.(*ssa.Builtin); ok {
		switch bi.Name() {
		case "len", "cap", "min", "max":
			return bi.Name() + "(" + strings.Join(args, ",") + ")"
		case "append":
			return fc.uniq("append", x)
		}
		return fc.uniq(bi.Name(), x)
	}
	if c.IsInvoke() {
		// an interface method whose receiver holds one known module type: that type's accessor
		if dm, dargs := fc.calleeArgs(x); dm != nil && fc.A.P.InModule(dm) {
			if ap := fc.accessorAPArgs(x, dm, dargs); ap != "" {
				return ap
			}
		}
		if pureMethodNames[c.Method.Name()] && !returnsError(c.Signature()) {
			return fc.AP(c.Value) + "." + c.Method.Name() + "(" + strings.Join(args, ",") + ")"
		}
		return fc.uniq("r:"+c.Method.Name(), x)
	}
	sc := c.StaticCallee()
	if sc == nil {
		// call through a func value (hook)
		return fc.uniq("r:dyn:"+fc.AP(c.Value), x)
	}
	if fc.A.P.InModule(sc) {
		if ap := fc.accessorAP(x, sc); ap != "" {
			return ap
		}
	}
	if sc.Signature.Recv() != nil {
		if pureMethodNames[sc.Name()] && len(args) > 0 {
			return args[0] + "." + sc.Name() + "(" + strings.Join(args[1:], ",") + ")"
		}
		return fc.uniq("r:"+shortFn(sc), x)
	}
	// the decimal text of an integer, however it is spelt: fmt.Sprintf("%d", n), fmt.Sprint(n), strconv.FormatInt(int64(n), 10)
	// name what strconv.Itoa(n) names
	if n := decimalTextOf(x); n != nil {
		return "strconv.Itoa(" + fc.AP(n) + ")"
	}
	if pureFuncs[sc.String()] || fc.A.isPureModuleFunc(sc) {
		return shortFn(sc) + "(" + strings.Join(args, ",") + ")"
	}
	return fc.uniq("r:"+shortFn(sc), x)
}

// decimalTextOf: call x yields the base-10 text of one signed integer value; that value (conversions to a wider
// signed integer type peeled), else nil.
func decimalTextOf(x *ssa.Call) ssa.Value {
	sc := x.Call.StaticCallee()
	if sc == nil {
		return nil
	}
	signedInt := func(v ssa.Value) ssa.Value {
		if mi, ok := v.(*ssa.MakeInterface); ok {
			v = mi.X
		}
		for {
			cv, ok := v.(*ssa.Convert)
			if !ok {
				break
			}
			ft, ok1 := cv.X.Type().Underlying().(*types.Basic)
			tt, ok2 := cv.Type().Underlying().(*types.Basic)
			if !ok1 || !ok2 || ft.Info()&types.IsInteger == 0 || tt.Info()&types.IsInteger == 0 || ft.Info()&types.IsUnsigned != 0 || tt.Info()&types.IsUnsigned != 0 || narrowsInteger(cv.X.Type(), cv.Type()) {
				break
			}
			v = cv.X
		}
		if bt, ok := v.Type().Underlying().(*types.Basic); ok && bt.Info()&types.IsInteger != 0 && bt.Info()&types.IsUnsigned == 0 {
			return v
		}
		return nil
	}
	switch sc.String() {
	case "fmt.Sprintf":
		if f, ok := constStr(x.Call.Args[0]); ok && (f == "%d" || f == "%v") {
			if vs := varargValues(x); len(vs) == 1 {
				return signedInt(vs[0])
			}
		}
	case "fmt.Sprint":
		if vs := varargValues(x); len(vs) == 1 {
			return signedInt(vs[0])
		}
	case "strconv.FormatInt":
		if k, ok := constInt(x.Call.Args[1]); ok && k == 10 {
			return signedInt(x.Call.Args[0])
		}
	}
	return nil
}

// accessorAP: a side-effect-free module function with a single return is named by what it returns
// (with its parameters bound to the arguments), so that introducing a trivial accessor is transparent.
func (fc *FuncCtx) accessorAP(x *ssa.Call, sc *ssa.Function) string {
	return fc.accessorAPArgs(x, sc, x.Call.Args)
}

func (fc *FuncCtx) accessorAPArgs(x *ssa.Call, sc *ssa.Function, cargs []ssa.Value) string {
	if !fc.A.isPureValueFunc(sc) || fc.depth >= fc.A.MaxDepth {
		return ""
	}
	var ret *ssa.Return
	for _, b := range sc.Blocks {
		if len(b.Instrs) == 0 {
			continue
		}
		if r, ok := b.Instrs[len(b.Instrs)-1].(*ssa.Return); ok {
			if ret != nil {
				return ""
			}
			ret = r
		}
	}
	if ret == nil || len(ret.Results) != 1 {
		return ""
	}
	sub := fc.inlineCtx(sc, cargs, x)
	ap := sub.AP(ret.Results[0])
	if sub.prefix == "" || strings.Contains(ap, sub.prefix) {
		return "" // depends on callee-local values
	}
	return ap
}

func shortFn(fn *ssa.Function) string {
	s := fn.String()
	s = strings.ReplaceAll(s, modPath+"/", "")
	s = strings.ReplaceAll(s, modPath, "saml")
	s = strings.ReplaceAll(s, "github.com/mattermost/xml-roundtrip-validator", "xrv")
	s = strings.ReplaceAll(s, "github.com/russellhaering/goxmldsig", "dsig")
	s = strings.ReplaceAll(s, "github.com/beevik/etree", "etree")
	s = strings.ReplaceAll(s, "github.com/golang-jwt/jwt/v4", "jwt")
	return s
}

func sortedKeys[V any](m map[string]V) []string {
	var ks []string
	for k := range m {
		ks = append(ks, k)
	}
	sort.Strings(ks)
	return ks
}

// rangeElemCopy: al is assigned exactly once, as a whole, from an element selected by a loop index (the loop
// variable of a range-by-value loop, or an explicit per-iteration copy); returns that element load.
func rangeElemCopy(al *ssa.Alloc) ssa.Value {
	var sv ssa.Value
	n := 0
	for _, r := range *al.Referrers() {
		if st, ok := r.(*ssa.Store); ok && st.Addr == ssa.Value(al) {
			sv = st.Val
			n++
		}
	}
	if n != 1 {
		return nil
	}
	ld, ok := sv.(*ssa.UnOp)
	if !ok || ld.Op != token.MUL {
		return nil
	}
	ia, ok := ld.X.(*ssa.IndexAddr)
	if !ok || !isInduction(ia.Index) {
		return nil
	}
	return sv
}

func storeOf(al *ssa.Alloc) *ssa.Store {
	for _, r := range *al.Referrers() {
		if st, ok := r.(*ssa.Store); ok && st.Addr == ssa.Value(al) {
			return st
		}
	}
	return nil
}

// lastStoreInBlock: for a load of a local that does not escape, the value of the last store to it that
// precedes the load in the same block (go/ssa spills results to locals in functions with defer).
func lastStoreInBlock(al *ssa.Alloc, load *ssa.UnOp) ssa.Value {
	for _, r := range *al.Referrers() {
		switch y := r.(type) {
		case *ssa.Store:
			if y.Addr != ssa.Value(al) {
				return nil
			}
		case *ssa.UnOp, *ssa.DebugRef:
		default:
			return nil
		}
	}
	var last ssa.Value
	for _, in := range load.Block().Instrs {
		if in == ssa.Instruction(load) {
			return last
		}
		if st, ok := in.(*ssa.Store); ok && st.Addr == ssa.Value(al) {
			last = st.Val
		}
	}
	return nil
}

// closureBinding: the value bound to free variable fv where its closure is created in the enclosing function (nil
// unless the closure is created exactly once).
func closureBinding(fv *ssa.FreeVar) ssa.Value {
	fn := fv.Parent()
	if fn == nil || fn.Parent() == nil {
		return nil
	}
	idx := -1
	for i, f := range fn.FreeVars {
		if f == fv {
			idx = i
		}
	}
	var bind ssa.Value
	n := 0
	for _, b := range fn.Parent().Blocks {
		for _, in := range b.Instrs {
			if mc, ok := in.(*ssa.MakeClosure); ok && mc.Fn == ssa.Value(fn) && idx >= 0 && idx < len(mc.Bindings) {
				bind = mc.Bindings[idx]
				n++
			}
		}
	}
	if n != 1 {
		return nil
	}
	return bind
}

// capturedSingleStore: al is a variable captured by reference; if it is assigned exactly once in the function that
// declares it and no closure assigns it, the assigned value.
func capturedSingleStore(al *ssa.Alloc) ssa.Value {
	var st *ssa.Store
	for _, r := range *al.Referrers() {
		switch y := r.(type) {
		case *ssa.Store:
			if y.Addr != ssa.Value(al) {
				return nil
			}
			if st != nil {
				return nil
			}
			st = y
		case *ssa.UnOp, *ssa.DebugRef:
		case *ssa.MakeClosure:
			cf, ok := y.Fn.(*ssa.Function)
			if !ok {
				return nil
			}
			for i, bnd := range y.Bindings {
				if bnd != ssa.Value(al) || i >= len(cf.FreeVars) {
					continue
				}
				for _, r2 := range *cf.FreeVars[i].Referrers() {
					switch z := r2.(type) {
					case *ssa.UnOp, *ssa.DebugRef:
					case *ssa.Store:
						if z.Addr == ssa.Value(cf.FreeVars[i]) {
							return nil
						}
					case *ssa.Call:
						if !readOnlyReceiverCall(z, cf.FreeVars[i]) {
							return nil
						}
					default:
						return nil
					}
				}
			}
		case *ssa.Call:
			// the variable's address as the receiver of an accessor with a pointer receiver (u.String() on a url.URL)
			if !readOnlyReceiverCall(y, al) {
				return nil
			}
		default:
			return nil
		}
	}
	if st == nil {
		return nil
	}
	return st.Val
}

// capturedValue: v is a load of a captured variable inside a closure: the value the enclosing function assigned to
// that variable (when it is assigned once); otherwise v itself.
func capturedValue(v ssa.Value) ssa.Value {
	ld, ok := v.(*ssa.UnOp)
	if !ok || ld.Op != token.MUL {
		return v
	}
	fv, ok := ld.X.(*ssa.FreeVar)
	if !ok {
		return v
	}
	al, ok := closureBinding(fv).(*ssa.Alloc)
	if !ok {
		return v
	}
	if sv := capturedSingleStore(al); sv != nil {
		return sv
	}
	return v
}

// Resolve looks through loads of non-escaping locals.
func Resolve(v ssa.Value) ssa.Value {
	for i := 0; i < 4; i++ {
		ld, ok := v.(*ssa.UnOp)
		if !ok || ld.Op != token.MUL {
			return v
		}
		al, ok := ld.X.(*ssa.Alloc)
		if !ok {
			return v
		}
		sv := lastStoreInBlock(al, ld)
		if sv == nil {
			return v
		}
		v = sv
	}
	return v
}

// wholeStore: the local has exactly one Store instruction targeting the whole variable, and its
// address is otherwise only used for field access / loads (it is not passed to a call or stored).
func wholeStore(al *ssa.Alloc) ssa.Value {
	var st *ssa.Store
	for _, r := range *al.Referrers() {
		switch y := r.(type) {
		case *ssa.Store:
			if y.Addr != ssa.Value(al) {
				return nil // address stored somewhere
			}
			if st != nil {
				return nil
			}
			st = y
		case *ssa.UnOp, *ssa.DebugRef:
		case *ssa.FieldAddr, *ssa.IndexAddr:
			// a copy whose parts are written afterwards (u := base; u.Host = h) is a new value, not a name for the original
			if partWritten(y.(ssa.Value), 0) {
				return nil
			}
		case *ssa.Call:
			// receiver of a pure getter (a by-value parameter spilled because the method has a pointer receiver)
			sc := y.Call.StaticCallee()
			if sc == nil || sc.Signature.Recv() == nil || !pureMethodNames[sc.Name()] || len(y.Call.Args) == 0 || y.Call.Args[0] != ssa.Value(al) {
				return nil
			}
			for _, a := range y.Call.Args[1:] {
				if a == ssa.Value(al) {
					return nil
				}
			}
		default:
			return nil
		}
	}
	if st == nil {
		return nil
	}
	return st.Val
}

// inlinedResultAP: when the callee is analysed as part of the caller (inlining policy) and every
// return hands back the same object for result idx (typically the address of one local), the call's
// result is named by that object, so that field facts established in the callee and uses in the caller
// speak about the same access path.
func (fc *FuncCtx) inlinedResultAP(c *ssa.Call, idx int) string {
	sc, cargs := fc.calleeArgs(c)
	if sc == nil || fc.A.Inline == nil || !fc.A.Inline(sc) || fc.depth >= fc.A.MaxDepth || len(sc.Blocks) == 0 {
		return ""
	}
	if ct := componentType(sc, idx); ct == nil {
		return ""
	} else if _, ok := ct.Underlying().(*types.Pointer); !ok {
		return ""
	}
	sub := fc.inlineCtx(sc, cargs, c)
	ap := ""
	for _, ret := range sub.Returns() {
		rc := retComponent(ret, idx)
		if rc == nil {
			return ""
		}
		v := Resolve(rc)
		if isNilConst(v) {
			continue
		}
		switch v.(type) {
		case *ssa.Alloc:
		case *ssa.Call:
			// the object a constructor call made in the helper (doc := etree.NewDocument(); ...; return doc, nil)
		default:
			return ""
		}
		s := sub.AP(v)
		if ap != "" && s != ap {
			return ""
		}
		ap = s
	}
	return ap
}

// pureResultAP: result idx of a side-effect-free module helper with several results, when every success return
// (nil error, if it has an error result) yields the same expression over the helper's parameters: the call's result is
// named by that expression over the arguments (splitIV(ct, n) -> ct[:n], ct[n:]).
func (fc *FuncCtx) pureResultAP(c *ssa.Call, idx int) string {
	sc, cargs := fc.calleeArgs(c)
	if sc == nil || fc.depth >= fc.A.MaxDepth || len(sc.Blocks) == 0 || !fc.A.isPureModuleFunc(sc) {
		return ""
	}
	hasErr, ei := false, 0
	if idx >= 0 {
		if e := errIndex(sc); e >= 0 {
			hasErr, ei = true, e
		}
	} else if sc.Signature.Results().Len() == 1 {
		// result struct: its error-typed field plays the role of the error result
		if st, ok := sc.Signature.Results().At(0).Type().Underlying().(*types.Struct); ok {
			for k := 0; k < st.NumFields(); k++ {
				if types.TypeString(st.Field(k).Type(), nil) == "error" {
					hasErr, ei = true, -k-1
				}
			}
		}
	}
	if hasErr && idx == ei {
		return ""
	}
	sub := fc.inlineCtx(sc, cargs, c)
	ap := ""
	for _, ret := range sub.Returns() {
		rc := retComponent(ret, idx)
		if rc == nil {
			return ""
		}
		if hasErr {
			if ev := retComponent(ret, ei); ev != nil && !isNilConst(Resolve(ev)) {
				continue // failure return: the other results are not used by a caller that checks the error
			}
		}
		s := sub.AP(rc)
		if sub.prefix == "" || strings.Contains(s, sub.prefix) {
			return "" // depends on values local to the helper
		}
		if ap != "" && s != ap {
			return ""
		}
		ap = s
	}
	return ap
}

func returnsError(sig *types.Signature) bool {
	for i := 0; i < sig.Results().Len(); i++ {
		if types.TypeString(sig.Results().At(i).Type(), nil) == "error" {
			return true
		}
	}
	return false
}

// cmpOrOperands: the operands of a call to cmp.Or, in order; nil for any other call.
func cmpOrOperands(c *ssa.Call) []ssa.Value {
	sc := c.Call.StaticCallee()
	if sc == nil || !strings.HasPrefix(sc.String(), "cmp.Or[") || len(c.Call.Args) != 1 {
		return nil
	}
	sl, ok := c.Call.Args[0].(*ssa.Slice)
	if !ok {
		return nil
	}
	al, ok := sl.X.(*ssa.Alloc)
	if !ok {
		return nil
	}
	return arrayLiteralElems(al)
}

// localBuilderMethod: a method call on a strings.Builder / bytes.Buffer that is a local variable of the calling function.
func localBuilderMethod(c *ssa.CallCommon) bool {
	sc := c.StaticCallee()
	if sc == nil || sc.Signature.Recv() == nil || len(c.Args) == 0 {
		return false
	}
	rt := types.TypeString(sc.Signature.Recv().Type(), nil)
	if rt != "*strings.Builder" && rt != "*bytes.Buffer" {
		return false
	}
	_, isLocal := c.Args[0].(*ssa.Alloc)
	return isLocal
}

// builderParts: c is b.String() (or b.Bytes()) of a local strings.Builder / bytes.Buffer b all of whose other uses are
// WriteString / Write / WriteByte / WriteRune calls in the same block before c, or in blocks that dominate it outside
// any loop: the values written, in order. nil otherwise.
func builderParts(c *ssa.Call) []ssa.Value {
	sc := c.Call.StaticCallee()
	if sc == nil || len(c.Call.Args) != 1 {
		return nil
	}
	switch sc.String() {
	case "(*strings.Builder).String", "(*bytes.Buffer).String":
	default:
		return nil
	}
	al, ok := c.Call.Args[0].(*ssa.Alloc)
	if !ok || al.Referrers() == nil {
		return nil
	}
	type wr struct {
		call *ssa.Call
		v    ssa.Value
	}
	var ws []wr
	for _, rf := range *al.Referrers() {
		switch u := rf.(type) {
		case *ssa.Call:
			if u == c {
				continue
			}
			usc := u.Call.StaticCallee()
			if usc == nil || len(u.Call.Args) < 1 || u.Call.Args[0] != ssa.Value(al) {
				return nil
			}
			switch usc.Name() {
			case "WriteString", "Write":
				if len(u.Call.Args) != 2 {
					return nil
				}
				ws = append(ws, wr{u, u.Call.Args[1]})
			case "Grow", "Len":
			default:
				return nil
			}
		case *ssa.DebugRef:
		case *ssa.Store:
			// zero initialisation of the local
			if u.Addr != ssa.Value(al) {
				return nil
			}
		default:
			return nil
		}
	}
	if len(ws) == 0 {
		return nil
	}
	// order: every write precedes the read, writes totally ordered by dominance / position
	pos := func(in ssa.Instruction) int {
		for i, x := range in.Block().Instrs {
			if x == in {
				return i
			}
		}
		return -1
	}
	before := func(x, y ssa.Instruction) bool {
		if x.Block() == y.Block() {
			return pos(x) < pos(y)
		}
		return x.Block().Dominates(y.Block())
	}
	for _, w := range ws {
		if !before(w.call, c) {
			return nil
		}
		// not in a loop
		if blockReaches(w.call.Block(), w.call.Block()) {
			return nil
		}
	}
	sort.SliceStable(ws, func(i, j int) bool { return before(ws[i].call, ws[j].call) })
	for i := 0; i+1 < len(ws); i++ {
		if !before(ws[i].call, ws[i+1].call) {
			return nil
		}
	}
	var out []ssa.Value
	for _, w := range ws {
		out = append(out, w.v)
	}
	return out
}

// componentType: the type of component idx of fn's result (convention of retComponent).
func componentType(fn *ssa.Function, idx int) types.Type {
	res := fn.Signature.Results()
	if idx >= 0 {
		if idx >= res.Len() {
			return nil
		}
		return res.At(idx).Type()
	}
	if res.Len() != 1 {
		return nil
	}
	st, ok := res.At(0).Type().Underlying().(*types.Struct)
	if !ok || -idx-1 >= st.NumFields() {
		return nil
	}
	return st.Field(-idx - 1).Type()
}

// structResultAP: field idx (convention of retAlts) of the result struct of a helper that is analysed as part of its
// caller: when every return puts the same value there (or leaves it zero: "X or nothing" is named X), that value's access
// path in the helper's context.
func (fc *FuncCtx) structResultAP(c *ssa.Call, idx int) string {
	sc := c.Call.StaticCallee()
	if sc == nil || fc.depth >= fc.A.MaxDepth || len(sc.Blocks) == 0 {
		return ""
	}
	if !(fc.A.Inline != nil && fc.A.Inline(sc)) && !fc.A.isPureModuleFunc(sc) {
		return ""
	}
	sub := fc.inlineCtx(sc, c.Call.Args, c)
	ap := ""
	for _, ret := range sub.Returns() {
		alts := retAlts(ret, idx)
		if len(alts) == 0 {
			return ""
		}
		for _, alt := range alts {
			if k, ok := alt.v.(*ssa.Const); ok && (k.Value == nil || isZeroConst(k)) {
				continue
			}
			s := sub.AP(alt.v)
			if ap != "" && s != ap {
				return ""
			}
			ap = s
		}
	}
	return ap
}

// partWritten: the address of a part of a local (a field or element address) is stored through, or escapes to code that
// may store through it.
func partWritten(addr ssa.Value, depth int) bool {
	if depth > 4 || addr.Referrers() == nil {
		return true
	}
	for _, r := range *addr.Referrers() {
		switch y := r.(type) {
		case *ssa.UnOp, *ssa.DebugRef:
		case *ssa.Store:
			return true
		case *ssa.FieldAddr, *ssa.IndexAddr:
			if partWritten(y.(ssa.Value), depth+1) {
				return true
			}
		case *ssa.Call:
			sc := y.Call.StaticCallee()
			if sc == nil || sc.Signature.Recv() == nil || !pureMethodNames[sc.Name()] || len(y.Call.Args) == 0 || y.Call.Args[0] != addr {
				return true
			}
		default:
			return true
		}
	}
	return false
}

// carriedValueType: a value a local struct merely carries from one place to another (a flag, an error, a string, an
// instant), as opposed to a container or object that is built up through the field (map, slice, pointer, channel, func).
func carriedValueType(t types.Type) bool {
	switch t.Underlying().(type) {
	case *types.Map, *types.Slice, *types.Pointer, *types.Chan, *types.Signature:
		return false
	}
	return true
}

// carrierStruct: t is (a pointer to) an unexported named struct type of the module: a bundle a function uses to carry a few
// values between its steps (cbcCipherValue{iv, body}), not a type of the API that is built up field by field.
func carrierStruct(t types.Type) bool {
	if pt, ok := t.Underlying().(*types.Pointer); ok {
		t = pt.Elem()
	}
	nm, ok := t.(*types.Named)
	if !ok || nm.Obj().Exported() || nm.Obj().Pkg() == nil || !strings.HasPrefix(nm.Obj().Pkg().Path(), modPath) {
		return false
	}
	_, isStruct := nm.Underlying().(*types.Struct)
	return isStruct
}

// firstSetPhi: ph merges a string A, on the edge taken when A is not empty, with another string B on the edge taken when
// A is empty: "firstSet(A,B)". Decided only when the conditions of both incoming edges are already known.
func (fc *FuncCtx) firstSetPhi(ph *ssa.Phi) string {
	if len(ph.Edges) != 2 || !isStringType(ph.Type()) || fc.cond == nil {
		return ""
	}
	blk := ph.Block()
	B := fc.A.B
	var conds [2]*bddNode
	for i := range ph.Edges {
		pc, ok := fc.cond[blk.Preds[i]]
		if !ok {
			return ""
		}
		conds[i] = B.And(pc, fc.edgeCond(blk.Preds[i], blk))
	}
	for i := 0; i < 2; i++ {
		if _, isPhi := ph.Edges[i].(*ssa.Phi); isPhi {
			continue
		}
		apA, apB := fc.AP(ph.Edges[i]), fc.AP(ph.Edges[1-i])
		nm := "empty(" + apA + ")"
		if !B.HasVar(nm) {
			continue
		}
		e := B.Var(nm)
		if conds[i] != B.False && conds[1-i] != B.False && B.Implies(conds[i], B.Not(e)) && B.Implies(conds[1-i], e) {
			return "firstSet(" + apA + "," + apB + ")"
		}
	}
	return ""
}

var stdSizes = types.SizesFor("gc", "amd64")

// narrowsInteger: a conversion between integer types to one of smaller size.
func narrowsInteger(from, to types.Type) bool {
	fb, ok1 := from.Underlying().(*types.Basic)
	tb, ok2 := to.Underlying().(*types.Basic)
	if !ok1 || !ok2 || fb.Info()&types.IsInteger == 0 || tb.Info()&types.IsInteger == 0 || fb.Info()&types.IsUntyped != 0 {
		return false
	}
	return stdSizes.Sizeof(tb) < stdSizes.Sizeof(fb)
}

// localHelperClosure: fn is a function literal whose closure value is created in its enclosing function and used for
// nothing but direct calls there (not stored, returned or passed on).
func localHelperClosure(fn *ssa.Function) bool {
	par := fn.Parent()
	if par == nil {
		return false
	}
	n := 0
	for _, b := range par.Blocks {
		for _, in := range b.Instrs {
			mc, ok := in.(*ssa.MakeClosure)
			if !ok || mc.Fn != ssa.Value(fn) {
				continue
			}
			n++
			for _, r := range *mc.Referrers() {
				switch y := r.(type) {
				case *ssa.DebugRef:
				case *ssa.Call:
					if y.Call.Value != ssa.Value(mc) {
						return false
					}
					for _, arg := range y.Call.Args {
						if arg == ssa.Value(mc) {
							return false
						}
					}
				default:
					return false
				}
			}
		}
	}
	return n > 0
}

// valueOfPureCall: while v is a call of a side-effect-free module function or of a local helper literal (a function
// literal that is only called, in the function that defines it) with one return statement and one result: the value
// that return yields, and the callee's context with parameters and captured variables bound. (v, fc) otherwise.
func (fc *FuncCtx) valueOfPureCall(v ssa.Value) (*FuncCtx, ssa.Value) {
	cur, c := fc, v
	for i := 0; i < 4; i++ {
		call, ok := c.(*ssa.Call)
		if !ok {
			break
		}
		sc := call.Call.StaticCallee()
		if sc == nil || len(sc.Blocks) == 0 || cur.depth >= cur.A.MaxDepth || !cur.A.isPureValueFunc(sc) {
			break
		}
		ret := singleReturn(sc)
		if ret == nil || len(ret.Results) != 1 {
			break
		}
		cur = cur.inlineCtx(sc, call.Call.Args, call)
		c = ret.Results[0]
	}
	return cur, c
}

// outOfLiteral: a value read inside a function literal from a variable it captures, as the value the declaring function
// gave that variable (when it is assigned once); v otherwise.
func outOfLiteral(v ssa.Value) ssa.Value {
	for i := 0; i < 3; i++ {
		cv := capturedValue(v)
		if cv == v {
			break
		}
		v = cv
	}
	return v
}

// forwardedResults: the results of ret; when they are, all of them, the results of one call of a side-effect-free module
// function or local helper literal with a single return (`return none()`), the values that return yields, and the
// callee's context.
func (fc *FuncCtx) forwardedResults(ret *ssa.Return) (*FuncCtx, []ssa.Value) {
	cur, res := fc, ret.Results
	for i := 0; i < 3; i++ {
		if len(res) < 2 {
			break
		}
		var call *ssa.Call
		ok := true
		for k, rv := range res {
			ex, isEx := rv.(*ssa.Extract)
			if !isEx || ex.Index != k {
				ok = false
				break
			}
			c, isC := ex.Tuple.(*ssa.Call)
			if !isC || (call != nil && c != call) {
				ok = false
				break
			}
			call = c
		}
		if !ok || call == nil {
			break
		}
		sc := call.Call.StaticCallee()
		if sc == nil || len(sc.Blocks) == 0 || cur.depth >= cur.A.MaxDepth || !cur.A.isPureValueFunc(sc) {
			break
		}
		r2 := singleReturn(sc)
		if r2 == nil || len(r2.Results) != len(res) {
			break
		}
		cur = cur.inlineCtx(sc, call.Call.Args, call)
		res = r2.Results
	}
	return cur, res
}

// readOnlyReceiverCall: addr is used by call only as the receiver of a standard-library accessor (a method among
// pureMethodNames that returns no error): the variable is read, not written.
func readOnlyReceiverCall(call *ssa.Call, addr ssa.Value) bool {
	sc := call.Call.StaticCallee()
	if sc == nil || sc.Signature.Recv() == nil || len(call.Call.Args) == 0 || call.Call.Args[0] != addr {
		return false
	}
	for _, a := range call.Call.Args[1:] {
		if a == addr {
			return false
		}
	}
	if sc.Pkg != nil && strings.HasPrefix(sc.Pkg.Pkg.Path(), modPath) {
		return false
	}
	return pureMethodNames[sc.Name()] && !returnsError(sc.Signature)
}

// calleeOf: the function a call invokes: its static callee, or - for a call through a local variable that holds a
// function literal and is assigned once (a literal that another literal calls is kept in such a variable) - that literal.
// The closure value, when there is one, carries the bindings of the captured variables.
func calleeOf(cc *ssa.CallCommon) (*ssa.Function, *ssa.MakeClosure) {
	if cc.IsInvoke() {
		return nil, nil
	}
	if sc := cc.StaticCallee(); sc != nil {
		mc, _ := cc.Value.(*ssa.MakeClosure)
		return sc, mc
	}
	v := cc.Value
	for i := 0; i < 3; i++ {
		ld, ok := v.(*ssa.UnOp)
		if !ok || ld.Op != token.MUL {
			break
		}
		var sv ssa.Value
		switch ad := ld.X.(type) {
		case *ssa.Alloc:
			sv = capturedSingleStore(ad)
			if sv != nil {
				if st := storeOf(ad); st == nil || !(st.Block() == ld.Block() || st.Block().Dominates(ld.Block())) {
					sv = nil
				}
			}
		case *ssa.FreeVar:
			if cv := capturedValue(ld); cv != ssa.Value(ld) {
				sv = cv
			}
		}
		if sv == nil {
			break
		}
		v = sv
	}
	switch x := v.(type) {
	case *ssa.Function:
		return x, nil
	case *ssa.MakeClosure:
		if f, ok := x.Fn.(*ssa.Function); ok {
			return f, x
		}
	}
	return nil, nil
}
