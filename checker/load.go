package main

import (
	"fmt"
	"go/token"
	"go/types"
	"os"
	"path/filepath"
	"sort"
	"strings"

	"golang.org/x/tools/go/callgraph"
	"golang.org/x/tools/go/callgraph/cha"
	"golang.org/x/tools/go/callgraph/vta"
	"golang.org/x/tools/go/packages"
	"golang.org/x/tools/go/ssa"
	"golang.org/x/tools/go/ssa/ssautil"
)

const modPath = "github.com/crewjam/saml"

// Prog is the loaded, type-checked and SSA-built module plus its dependencies.
type Prog struct {
	Dir     string
	Pkgs    []*packages.Package
	ByPath  map[string]*packages.Package
	SSA     *ssa.Program
	SPkg    map[string]*ssa.Package
	Fset    *token.FileSet
	allFns  map[*ssa.Function]bool
	modFns  []*ssa.Function // functions (incl. anonymous) whose source is in the module, non-test
	cg      *callgraph.Graph
	cgKind  string
	callers map[*ssa.Function][]callSite
}

type callSite struct {
	Caller *ssa.Function
	Instr  ssa.CallInstruction
	// Shift > 0: the site calls fn through a bound-method value (the receiver is not among the site's
	// arguments); Recv is the bound receiver when it can be read off the closure in the caller.
	Shift int
	Recv  ssa.Value
}

// Arg: the value passed for the callee's i-th parameter (receiver = parameter 0 of a method), or nil.
func (cs callSite) Arg(i int) ssa.Value {
	args := cs.Instr.Common().Args
	if cs.Shift > 0 {
		if i == 0 {
			return cs.Recv
		}
		i -= cs.Shift
	}
	if i < 0 || i >= len(args) {
		return nil
	}
	return args[i]
}

var libPkgs = []string{modPath, modPath + "/xmlenc", modPath + "/samlsp", modPath + "/samlidp"}

type infraError struct{ msg string }

func (e infraError) Error() string { return e.msg }

func infra(format string, a ...any) { panic(infraError{fmt.Sprintf(format, a...)}) }

func Load(dir string, goarch string) *Prog {
	env := append(os.Environ(), "GOWORK=off", "GOFLAGS=-mod=mod", "GOPROXY=off", "GOSUMDB=off", "GOTOOLCHAIN=local")
	if goarch != "" {
		env = append(env, "GOARCH="+goarch)
	}
	cfg := &packages.Config{
		Mode:  packages.LoadAllSyntax,
		Dir:   dir,
		Env:   env,
		Tests: false,
	}
	pkgs, err := packages.Load(cfg, "./...")
	if err != nil {
		infra("packages.Load: %v", err)
	}
	if len(pkgs) == 0 {
		infra("no packages loaded from %s", dir)
	}
	p := &Prog{Dir: dir, Pkgs: pkgs, ByPath: map[string]*packages.Package{}, SPkg: map[string]*ssa.Package{}}
	var errs []string
	packages.Visit(pkgs, nil, func(pk *packages.Package) {
		if strings.HasPrefix(pk.PkgPath, modPath) {
			for _, e := range pk.Errors {
				errs = append(errs, e.Error())
			}
		}
	})
	if len(errs) > 0 {
		infra("module does not type-check: %s", strings.Join(errs, "; "))
	}
	for _, pk := range pkgs {
		p.ByPath[pk.PkgPath] = pk
	}
	for _, lp := range libPkgs {
		if p.ByPath[lp] == nil {
			infra("library package %s missing from load", lp)
		}
	}
	prog, spkgs := ssautil.AllPackages(pkgs, ssa.InstantiateGenerics)
	prog.Build()
	p.SSA = prog
	p.Fset = prog.Fset
	for i, sp := range spkgs {
		if sp != nil {
			p.SPkg[pkgs[i].PkgPath] = sp
		}
	}
	p.allFns = ssautil.AllFunctions(prog)
	// an instantiation of a generic function of the module belongs, for every rule, to the package that declares the
	// generic function (go/ssa leaves Pkg nil on instances; nothing is built after this point)
	for fn := range p.allFns {
		if fn.Pkg == nil && fn.Parent() == nil {
			if o := fn.Origin(); o != nil && o.Pkg != nil && strings.HasPrefix(o.Pkg.Pkg.Path(), modPath) {
				fn.Pkg = o.Pkg
			}
		}
	}
	for fn := range p.allFns {
		if p.InModule(fn) {
			p.modFns = append(p.modFns, fn)
		}
	}
	sort.Slice(p.modFns, func(i, j int) bool { return p.FnName(p.modFns[i]) < p.FnName(p.modFns[j]) })
	return p
}

// InModule reports whether fn's source lies in the module under analysis (non-test).
func (p *Prog) InModule(fn *ssa.Function) bool {
	if fn == nil {
		return false
	}
	for fn.Parent() != nil {
		fn = fn.Parent()
	}
	if fn.Pkg == nil {
		// instantiated generics / wrappers
		if o := fn.Origin(); o != nil && o.Pkg != nil {
			return strings.HasPrefix(o.Pkg.Pkg.Path(), modPath)
		}
		return false
	}
	if fn.Synthetic != "" && fn.Syntax() == nil && !strings.HasPrefix(fn.Synthetic, "package init") {
		return false
	}
	return strings.HasPrefix(fn.Pkg.Pkg.Path(), modPath)
}

// InLibrary: module function located in one of the four library packages.
func (p *Prog) InLibrary(fn *ssa.Function) bool {
	if !p.InModule(fn) {
		return false
	}
	for fn.Parent() != nil {
		fn = fn.Parent()
	}
	if fn.Pkg == nil {
		return false
	}
	pp := fn.Pkg.Pkg.Path()
	for _, lp := range libPkgs {
		if pp == lp {
			return true
		}
	}
	// helpers moved into an internal package of the module are library code (only the library can import them)
	return strings.HasPrefix(pp, modPath+"/internal/")
}

// FnName is a stable printable name: pkgshort.(Recv).Name or pkgshort.Name, with $n for closures.
func (p *Prog) FnName(fn *ssa.Function) string {
	if fn == nil {
		return "<nil>"
	}
	s := fn.String()
	s = strings.ReplaceAll(s, modPath+"/", "")
	s = strings.ReplaceAll(s, modPath, "saml")
	return s
}

func (p *Prog) Pos(pos token.Pos) string {
	if !pos.IsValid() {
		return "-"
	}
	ps := p.Fset.Position(pos)
	rel, err := filepath.Rel(p.Dir, ps.Filename)
	if err != nil || strings.HasPrefix(rel, "..") {
		rel = ps.Filename
	}
	return fmt.Sprintf("%s:%d", rel, ps.Line)
}

func (p *Prog) InstrPos(in ssa.Instruction) string {
	pos := in.Pos()
	if !pos.IsValid() {
		// fall back to nearest instruction in block with a position
		b := in.Block()
		if b != nil {
			for _, o := range b.Instrs {
				if o.Pos().IsValid() {
					pos = o.Pos()
					if o == in {
						break
					}
				}
			}
		}
		if !pos.IsValid() && in.Parent() != nil {
			pos = in.Parent().Pos()
		}
	}
	return p.Pos(pos)
}

// Func looks a function or method up: Func("saml", "ServiceProvider", "ParseXMLResponse") or
// Func("xmlenc", "", "Decrypt"). pkg is the path relative to the module ("saml" = root).
func (p *Prog) Func(pkg, recv, name string) *ssa.Function {
	path := modPath
	if pkg != "saml" && pkg != "" {
		path = modPath + "/" + pkg
	}
	sp := p.SPkg[path]
	if sp == nil {
		return nil
	}
	if recv == "" {
		return sp.Func(name)
	}
	t := sp.Type(recv)
	if t == nil {
		return nil
	}
	nt := t.Type()
	for _, T := range []types.Type{nt, types.NewPointer(nt)} {
		ms := p.SSA.MethodSets.MethodSet(T)
		if sel := ms.Lookup(sp.Pkg, name); sel != nil {
			return p.SSA.MethodValue(sel)
		}
	}
	return nil
}

func (p *Prog) MustFunc(pkg, recv, name string) *ssa.Function {
	f := p.Func(pkg, recv, name)
	if f == nil {
		panic(unresolved{fmt.Sprintf("%s.%s.%s", pkg, recv, name)})
	}
	return f
}

// Worker: the function that does the work of the named method: the method itself, or, when the exported method is a
// shell that only forwards its receiver and parameters, the library function it forwards to.
func (p *Prog) Worker(pkg, recv, name string) *ssa.Function {
	f := p.MustFunc(pkg, recv, name)
	if w := forwardedTo(f); w != f && p.InLibrary(w) {
		return w
	}
	return f
}

type unresolved struct{ what string }

// NamedType returns the named type pkg.name.
func (p *Prog) NamedType(pkg, name string) *types.Named {
	path := modPath
	if pkg != "saml" && pkg != "" {
		path = modPath + "/" + pkg
	}
	pk := p.ByPath[path]
	if pk == nil {
		return nil
	}
	o := pk.Types.Scope().Lookup(name)
	if o == nil {
		return nil
	}
	n, _ := o.Type().(*types.Named)
	return n
}

// CallGraph builds (once) the call graph: CHA for quick, VTA-refined for thorough.
func (p *Prog) CallGraph(kind string) *callgraph.Graph {
	if p.cg != nil && p.cgKind == kind {
		return p.cg
	}
	g := cha.CallGraph(p.SSA)
	if kind == "vta" {
		g = vta.CallGraph(p.allFns, g)
	}
	p.cg = g
	p.cgKind = kind
	p.callers = nil
	return g
}

// Reachable returns the module functions reachable from the roots (following every edge of the
// call graph, through dependencies too), including closures created in reachable functions.
func (p *Prog) Reachable(kind string, roots ...*ssa.Function) map[*ssa.Function]bool {
	g := p.CallGraph(kind)
	seen := map[*ssa.Function]bool{}
	var work []*ssa.Function
	push := func(f *ssa.Function) {
		if f != nil && !seen[f] {
			seen[f] = true
			work = append(work, f)
		}
	}
	for _, r := range roots {
		push(r)
	}
	for len(work) > 0 {
		f := work[len(work)-1]
		work = work[:len(work)-1]
		if n := g.Nodes[f]; n != nil {
			for _, e := range n.Out {
				// only descend into dependencies when they can call back into the module
				// through an interface/func value: keep it simple and follow everything.
				push(e.Callee.Func)
			}
		}
		for _, af := range f.AnonFuncs {
			push(af)
		}
	}
	out := map[*ssa.Function]bool{}
	for f := range seen {
		if p.InModule(f) {
			out[f] = true
		}
	}
	return out
}

// ReachableModuleOnly follows call edges only through module functions (a call into a dependency is
// not followed). This is the scope for rules about the library's own handling of peer input: what a
// dependency calls back (e.g. encoding/xml -> UnmarshalXML methods) is added explicitly by the rule.
func (p *Prog) ReachableModuleOnly(kind string, roots ...*ssa.Function) map[*ssa.Function]bool {
	g := p.CallGraph(kind)
	seen := map[*ssa.Function]bool{}
	var work []*ssa.Function
	push := func(f *ssa.Function) {
		if f != nil && !seen[f] && p.InModule(f) {
			seen[f] = true
			work = append(work, f)
		}
	}
	for _, r := range roots {
		push(r)
	}
	for len(work) > 0 {
		f := work[len(work)-1]
		work = work[:len(work)-1]
		if n := g.Nodes[f]; n != nil {
			for _, e := range n.Out {
				push(e.Callee.Func)
			}
		}
		for _, af := range f.AnonFuncs {
			push(af)
		}
	}
	return seen
}

// StaticCallersOf returns the non-test module call sites that statically call fn.
func (p *Prog) StaticCallersOf(fn *ssa.Function) []callSite {
	if p.callers == nil {
		p.callers = map[*ssa.Function][]callSite{}
		for _, f := range p.modFns {
			for _, b := range f.Blocks {
				for _, in := range b.Instrs {
					if ci, ok := in.(ssa.CallInstruction); ok {
						if c := ci.Common().StaticCallee(); c != nil {
							p.callers[c] = append(p.callers[c], callSite{Caller: f, Instr: ci})
						}
					}
				}
			}
		}
	}
	return p.callers[fn]
}

// forwardedBy: for a synthetic wrapper (bound method value, method expression thunk) the function it forwards to.
func forwardedBy(w *ssa.Function) *ssa.Function {
	if w == nil || w.Synthetic == "" {
		return nil
	}
	var tgt *ssa.Function
	for _, b := range w.Blocks {
		for _, in := range b.Instrs {
			if ci, ok := in.(ssa.CallInstruction); ok {
				sc := ci.Common().StaticCallee()
				if sc == nil || tgt != nil {
					return nil
				}
				tgt = sc
			}
		}
	}
	return tgt
}

type calleeAt struct {
	Fn    *ssa.Function
	Shift int       // 1: called through a bound-method value (Recv is the bound receiver, if known)
	Recv  ssa.Value // receiver binding in the calling function
}

// CalleesAt resolves a call site: the static callee, or for a call through a func value the targets the
// call graph gives (wrappers of method values are replaced by the method they forward to).
func (p *Prog) CalleesAt(caller *ssa.Function, ci ssa.CallInstruction) []calleeAt {
	if sc := ci.Common().StaticCallee(); sc != nil {
		return []calleeAt{{Fn: sc}}
	}
	if ci.Common().IsInvoke() {
		return nil
	}
	kind := p.cgKind
	if kind == "" {
		kind = "cha"
	}
	g := p.CallGraph(kind)
	n := g.Nodes[caller]
	if n == nil {
		return nil
	}
	var out []calleeAt
	seen := map[*ssa.Function]bool{}
	for _, e := range n.Out {
		if e.Site != ci || e.Callee == nil || e.Callee.Func == nil || seen[e.Callee.Func] {
			continue
		}
		seen[e.Callee.Func] = true
		f := e.Callee.Func
		if t := forwardedBy(f); t != nil {
			ca := calleeAt{Fn: t}
			if len(f.FreeVars) == 1 {
				ca.Shift = 1
				ca.Recv = boundReceiver(caller, f)
			}
			out = append(out, ca)
			continue
		}
		out = append(out, calleeAt{Fn: f})
	}
	sort.Slice(out, func(i, j int) bool { return out[i].Fn.String() < out[j].Fn.String() })
	return out
}

// boundReceiver: the receiver bound into the method value w where it is created in fn (nil if it is
// created elsewhere or more than once with different receivers).
func boundReceiver(fn *ssa.Function, w *ssa.Function) ssa.Value {
	var recv ssa.Value
	for _, b := range fn.Blocks {
		for _, in := range b.Instrs {
			if mc, ok := in.(*ssa.MakeClosure); ok && mc.Fn == ssa.Value(w) && len(mc.Bindings) == 1 {
				if recv != nil && recv != mc.Bindings[0] {
					return nil
				}
				recv = mc.Bindings[0]
			}
		}
	}
	return recv
}

// CallersOf: StaticCallersOf plus the module call sites that reach fn through a func value according to the
// call graph (method values in a table, a helper passed as a callback).
func (p *Prog) CallersOf(fn *ssa.Function) []callSite {
	out := append([]callSite{}, p.StaticCallersOf(fn)...)
	kind := p.cgKind
	if kind == "" {
		kind = "cha"
	}
	g := p.CallGraph(kind)
	add := func(target *ssa.Function, shift bool) {
		n := g.Nodes[target]
		if n == nil {
			return
		}
		for _, e := range n.In {
			if e.Site == nil || e.Caller == nil || !p.InModule(e.Caller.Func) || e.Caller.Func.Synthetic != "" {
				continue
			}
			if e.Site.Common().StaticCallee() != nil || e.Site.Common().IsInvoke() {
				continue
			}
			cs := callSite{Caller: e.Caller.Func, Instr: e.Site}
			if shift {
				cs.Shift = 1
				cs.Recv = boundReceiver(e.Caller.Func, target)
			}
			out = append(out, cs)
		}
	}
	add(fn, false)
	for w := range p.allFns {
		if w.Synthetic != "" && forwardedBy(w) == fn {
			add(w, len(w.FreeVars) == 1)
		}
	}
	sort.SliceStable(out, func(i, j int) bool {
		a, b := out[i], out[j]
		if a.Caller != b.Caller {
			return p.FnName(a.Caller) < p.FnName(b.Caller)
		}
		return a.Instr.Pos() < b.Instr.Pos()
	})
	return out
}

// calleeName gives a canonical name for the static callee or the interface method of a call.
func calleeName(c *ssa.CallCommon) string {
	if c.IsInvoke() {
		return "(" + types.TypeString(c.Value.Type(), nil) + ")." + c.Method.Name()
	}
	if f := c.StaticCallee(); f != nil {
		if f.Signature.Recv() != nil && f.Object() != nil {
			return f.String()
		}
		return f.String()
	}
	if b, ok := c.Value.(*ssa.Builtin); ok {
		return b.Name()
	}
	return ""
}

// callsTo lists the call instructions in fn whose canonical callee name equals name.
func callsTo(fn *ssa.Function, names ...string) []ssa.CallInstruction {
	var out []ssa.CallInstruction
	for _, b := range fn.Blocks {
		for _, in := range b.Instrs {
			if ci, ok := in.(ssa.CallInstruction); ok {
				cn := calleeName(ci.Common())
				for _, n := range names {
					if cn == n {
						out = append(out, ci)
					}
				}
			}
		}
	}
	return out
}

// FuncsCalling returns the module functions (sorted) that contain a call to one of the names.
func (p *Prog) FuncsCalling(names ...string) []*ssa.Function {
	var out []*ssa.Function
	for _, f := range p.modFns {
		if len(callsTo(f, names...)) > 0 {
			out = append(out, f)
		}
	}
	return out
}

func derefType(t types.Type) types.Type {
	for {
		if pt, ok := t.Underlying().(*types.Pointer); ok {
			t = pt.Elem()
			continue
		}
		return t
	}
}

func namedOf(t types.Type) *types.Named {
	t = derefType(t)
	n, _ := t.(*types.Named)
	return n
}

func typeIs(t types.Type, pkgPath, name string) bool {
	n := namedOf(t)
	if n == nil || n.Obj() == nil {
		return false
	}
	pk := ""
	if n.Obj().Pkg() != nil {
		pk = n.Obj().Pkg().Path()
	}
	return pk == pkgPath && n.Obj().Name() == name
}
