package main

// Bounds and API-precondition guards (K11). Every Index/IndexAddr/Slice on a slice or string in scope
// must be justified by one of the enumerated idioms; the length facts come from the path condition.
// The small "theory" used: the atoms over len(X) that occur in the guard are evaluated for each of the
// finitely many bad lengths (0..k); if the path condition is unsatisfiable for every bad length the
// access is in range. Nothing symbolic, no solver.

import (
	"fmt"
	"go/constant"
	"go/token"
	"go/types"
	"regexp/syntax"
	"strconv"
	"strings"

	"golang.org/x/tools/go/ssa"
)

type BoundsRules struct {
	R *Report
	A *Analysis
	S *Scope
}

func constInt(v ssa.Value) (int64, bool) {
	c, ok := v.(*ssa.Const)
	if !ok || c.Value == nil || c.Value.Kind() != constant.Int {
		return 0, false
	}
	return c.Int64(), true
}

// lenAtLeast: does the path condition at block b imply len(X) >= need, where X has access path ap?
func (br *BoundsRules) lenAtLeast(fc *FuncCtx, b *ssa.BasicBlock, ap string, need int64) bool {
	if need <= 0 {
		return true
	}
	if need > 64 {
		return false
	}
	B := br.A.B
	cond := fc.Cond(b)
	lenAP := "len(" + ap + ")"
	for L := int64(0); L < need; L++ {
		c := cond
		for _, name := range B.Support(cond) {
			ai := br.A.Atoms[name]
			if ai == nil {
				continue
			}
			val, known := evalLenAtom(ai, ap, lenAP, L)
			if known {
				c = B.Restrict(c, name, val)
			}
		}
		if c != B.False {
			return false
		}
	}
	return true
}

func parseConstAP(s string) (int64, bool) {
	if !strings.HasPrefix(s, "c:") {
		return 0, false
	}
	n, err := strconv.ParseInt(s[2:], 10, 64)
	return n, err == nil
}

func evalLenAtom(ai *AtomInfo, ap, lenAP string, L int64) (bool, bool) {
	switch ai.Kind {
	case "empty":
		if len(ai.Args) == 1 && ai.Args[0] == ap {
			return L == 0, true
		}
	case "isnil":
		// a nil slice has length 0; non-nil tells nothing
		if len(ai.Args) == 1 && ai.Args[0] == ap && L > 0 {
			return false, true
		}
	case "eq":
		if len(ai.Args) == 2 {
			if ai.Args[0] == lenAP {
				if n, ok := parseConstAP(ai.Args[1]); ok {
					return L == n, true
				}
			}
			if ai.Args[1] == lenAP {
				if n, ok := parseConstAP(ai.Args[0]); ok {
					return L == n, true
				}
			}
		}
	case "lt":
		if len(ai.Args) == 2 {
			if ai.Args[0] == lenAP {
				if n, ok := parseConstAP(ai.Args[1]); ok {
					return L < n, true
				}
			}
			if ai.Args[1] == lenAP {
				if n, ok := parseConstAP(ai.Args[0]); ok {
					return n < L, true
				}
			}
		}
	}
	return false, false
}

// lenAtLeastExpr: len(ap) >= E where E is a non-constant expression with access path eap:
// the path condition must imply !lt(len(ap), eap).
func (br *BoundsRules) lenAtLeastExpr(fc *FuncCtx, b *ssa.BasicBlock, ap, eap string) bool {
	B := br.A.B
	name := "lt(len(" + ap + ")," + eap + ")"
	if !B.HasVar(name) {
		return false
	}
	return fc.Implied(b, B.Not(B.Var(name)))
}

// knownLen: length known by construction (slice of a fixed array, make with constant length, or a
// field/local that was assigned such a value in this function at a dominating point).
func (br *BoundsRules) knownLen(fc *FuncCtx, v ssa.Value, at *ssa.BasicBlock, depth int) (int64, bool) {
	if depth > 4 {
		return 0, false
	}
	switch x := v.(type) {
	case *ssa.Slice:
		if pt, ok := x.X.Type().Underlying().(*types.Pointer); ok {
			if at, ok := pt.Elem().Underlying().(*types.Array); ok {
				lo, hi := int64(0), at.Len()
				okB := true
				if x.Low != nil {
					lo, okB = constInt(x.Low)
				}
				if x.High != nil && okB {
					hi, okB = constInt(x.High) // make([]T, k) with constant k: new [k]T sliced [:k]
				}
				if okB && lo >= 0 && lo <= hi && hi <= at.Len() {
					return hi - lo, true
				}
			}
		}
	case *ssa.MakeSlice:
		if n, ok := constInt(x.Len); ok {
			return n, true
		}
	case *ssa.UnOp:
		if x.Op == token.MUL {
			want := fc.AP(x.X)
			for _, b := range fc.Fn.Blocks {
				for _, in := range b.Instrs {
					st, ok := in.(*ssa.Store)
					if !ok || fc.AP(st.Addr) != want {
						continue
					}
					if b == at || b.Dominates(at) {
						if n, ok := br.knownLen(fc, st.Val, at, depth+1); ok {
							return n, true
						}
					}
				}
			}
		}
	case *ssa.Call:
		// regexp submatch: len = 1 + NumSubexp when non-nil
	}
	return 0, false
}

// regexpSubmatchLen: v is the result of (*regexp.Regexp).FindStringSubmatch on a package-level regexp
// compiled from a constant; returns 1+NumSubexp.
func (br *BoundsRules) regexpSubmatchLen(v ssa.Value) (int64, bool) {
	call, ok := v.(*ssa.Call)
	if !ok {
		return 0, false
	}
	sc := call.Call.StaticCallee()
	if sc == nil || sc.String() != "(*regexp.Regexp).FindStringSubmatch" {
		return 0, false
	}
	ld, ok := call.Call.Args[0].(*ssa.UnOp)
	if !ok {
		return 0, false
	}
	g, ok := ld.X.(*ssa.Global)
	if !ok {
		return 0, false
	}
	// find the single store to g: regexp.MustCompile(const)
	var pat string
	n := 0
	for fn := range br.A.P.allFns {
		if fn.Pkg != g.Pkg {
			continue
		}
		for _, b := range fn.Blocks {
			for _, in := range b.Instrs {
				st, ok := in.(*ssa.Store)
				if !ok || st.Addr != ssa.Value(g) {
					continue
				}
				n++
				if c, ok := st.Val.(*ssa.Call); ok {
					if cs := c.Call.StaticCallee(); cs != nil && cs.String() == "regexp.MustCompile" {
						if k, ok := c.Call.Args[0].(*ssa.Const); ok && k.Value != nil && k.Value.Kind() == constant.String {
							pat = constant.StringVal(k.Value)
						}
					}
				}
			}
		}
	}
	if n != 1 || pat == "" {
		return 0, false
	}
	re, err := syntax.Parse(pat, syntax.Perl)
	if err != nil {
		return 0, false
	}
	return int64(re.MaxCap()) + 1, true
}

// inRangeLoopOver: idx is the induction variable of a range loop bounded by len(X) with the same AP.
func (br *BoundsRules) inRangeLoopOver(fc *FuncCtx, idx ssa.Value, ap string) bool {
	phi, ok := idx.(*ssa.Phi)
	if !ok {
		// rotated loops index with phi+1
		if bo, ok := idx.(*ssa.BinOp); ok && bo.Op == token.ADD {
			if p2, ok := bo.X.(*ssa.Phi); ok {
				phi = p2
			}
		}
		if phi == nil {
			return false
		}
	}
	// find the loop test: a BinOp LSS using the (incremented) phi against len(X)
	check := func(v ssa.Value) bool {
		for _, r := range *v.Referrers() {
			if bo, ok := r.(*ssa.BinOp); ok && bo.Op == token.LSS && bo.X == v {
				if la := lenArg(bo.Y); la != nil && fc.AP(la) == ap {
					return true
				}
			}
		}
		return false
	}
	if check(phi) {
		return true
	}
	for _, r := range *phi.Referrers() {
		if bo, ok := r.(*ssa.BinOp); ok && bo.Op == token.ADD && check(bo) {
			return true
		}
	}
	return false
}

// nonNegative: v cannot be negative at b: unsigned, a non-negative constant, a length, a loop counter or range index,
// sums/products/quotients/remainders of such values, a widening conversion of one, or a value the path condition
// compares with 0 (v >= 0, v > -1).
func (br *BoundsRules) nonNegative(fc *FuncCtx, b *ssa.BasicBlock, v ssa.Value, depth int) bool {
	lb, ok := br.lowerBound(fc, b, v, depth)
	return ok && lb >= 0
}

func (br *BoundsRules) lowerBound(fc *FuncCtx, b *ssa.BasicBlock, v ssa.Value, depth int) (int64, bool) {
	if depth > 6 {
		return 0, false
	}
	if bt, ok := v.Type().Underlying().(*types.Basic); ok && bt.Info()&types.IsUnsigned != 0 {
		return 0, true
	}
	if k, ok := constInt(v); ok {
		return k, true
	}
	B := br.A.B
	ap := fc.AP(v)
	if n := "lt(" + ap + ",c:0)"; B.HasVar(n) && fc.Implied(b, B.Not(B.Var(n))) {
		return 0, true
	}
	if n := "lt(c:-1," + ap + ")"; B.HasVar(n) && fc.Implied(b, B.Var(n)) {
		return 0, true
	}
	switch x := v.(type) {
	case *ssa.Call:
		if lenArg(x) != nil {
			return 0, true
		}
		if bi, ok := x.Call.Value.(*ssa.Builtin); ok && (bi.Name() == "cap" || bi.Name() == "copy") {
			return 0, true
		}
		// a position reported by an Index* search of the standard library is -1 or a valid position: under "!= -1" it is >= 0
		if sc := x.Call.StaticCallee(); sc != nil && sc.Pkg != nil && !br.A.P.InModule(sc) && strings.Contains(sc.Name(), "Index") {
			if bt, ok := x.Type().Underlying().(*types.Basic); ok && bt.Kind() == types.Int {
				if n := "eq(" + ap + ",c:-1)"; B.HasVar(n) && fc.Implied(b, B.Not(B.Var(n))) {
					return 0, true
				}
				if n := "eq(c:-1," + ap + ")"; B.HasVar(n) && fc.Implied(b, B.Not(B.Var(n))) {
					return 0, true
				}
				return -1, true
			}
		}
	case *ssa.Extract:
		if _, ok := x.Tuple.(*ssa.Next); ok && x.Index == 1 {
			if _, isInt := x.Type().Underlying().(*types.Basic); isInt {
				return 0, true // key of a range over a string
			}
		}
	case *ssa.Phi:
		// loop counter: starts somewhere and only grows
		if len(x.Edges) == 2 {
			for i, e := range x.Edges {
				if bo, ok := e.(*ssa.BinOp); ok && bo.Op == token.ADD && bo.X == x {
					if k, ok := constInt(bo.Y); ok && k > 0 {
						return br.lowerBound(fc, b, x.Edges[1-i], depth+1)
					}
				}
			}
		}
	case *ssa.Convert:
		if ft, ok := x.X.Type().Underlying().(*types.Basic); ok && ft.Info()&types.IsInteger != 0 && !narrowsInteger(x.X.Type(), x.Type()) {
			if ft.Info()&types.IsUnsigned != 0 {
				// unsigned -> wider signed keeps the value
				tt, _ := x.Type().Underlying().(*types.Basic)
				if tt != nil && stdSizes.Sizeof(tt) > stdSizes.Sizeof(ft) {
					return 0, true
				}
				return 0, false
			}
			return br.lowerBound(fc, b, x.X, depth+1)
		}
	case *ssa.BinOp:
		l, ok1 := br.lowerBound(fc, b, x.X, depth+1)
		r, ok2 := br.lowerBound(fc, b, x.Y, depth+1)
		switch x.Op {
		case token.ADD:
			if ok1 && ok2 {
				return l + r, true
			}
		case token.MUL, token.QUO, token.REM, token.SHR, token.AND:
			if ok1 && ok2 && l >= 0 && r >= 0 {
				return 0, true
			}
		}
	}
	return 0, false
}

type boundsOpts struct {
	OnlySchemaDerived bool // respond scope: only slices that are fields of schema types (metadata/request data)
}

func (br *BoundsRules) schemaDerived(v ssa.Value) bool {
	for i := 0; i < 16; i++ {
		switch x := v.(type) {
		case *ssa.UnOp:
			v = x.X
		case *ssa.FieldAddr:
			if br.S.isSchemaType(x.X.Type()) {
				return true
			}
			v = x.X
		case *ssa.Field:
			if br.S.isSchemaType(x.X.Type()) {
				return true
			}
			v = x.X
		case *ssa.IndexAddr:
			v = x.X
		case *ssa.Index:
			v = x.X
		case *ssa.Slice:
			v = x.X
		case *ssa.Parameter:
			// a helper handed a list of schema values
			t := derefType(x.Type()).Underlying()
			switch tt := t.(type) {
			case *types.Slice:
				return br.S.isSchemaType(tt.Elem())
			case *types.Array:
				return br.S.isSchemaType(tt.Elem())
			}
			return false
		default:
			return false
		}
	}
	return false
}

func (br *BoundsRules) Check(fns []*ssa.Function, rule string, opt boundsOpts) {
	p := br.A.P
	for _, fn := range fns {
		if len(fn.Blocks) == 0 {
			continue
		}
		br.R.Fn(p.FnName(fn))
		fc := br.A.Ctx(fn)
		fc.ensureConds()
		for _, b := range fn.Blocks {
			for _, in := range b.Instrs {
				switch x := in.(type) {
				case *ssa.IndexAddr:
					br.checkIndex(fc, b, in, x.X, x.Index, rule, opt)
				case *ssa.Index:
					br.checkIndex(fc, b, in, x.X, x.Index, rule, opt)
				case *ssa.Slice:
					br.checkSlice(fc, b, x, rule, opt)
				case *ssa.MakeSlice:
					br.checkMake(fc, b, x, rule, opt)
				}
			}
		}
	}
}

func (br *BoundsRules) checkIndex(fc *FuncCtx, b *ssa.BasicBlock, in ssa.Instruction, X, idx ssa.Value, rule string, opt boundsOpts) {
	p := br.A.P
	t := X.Type().Underlying()
	if pt, ok := t.(*types.Pointer); ok {
		t = pt.Elem().Underlying()
	}
	ap := fc.AP(X)
	cons := fmt.Sprintf("%s: index %s%s", p.FnName(fc.Fn), ap, fc.indexStr(idx))
	if at, ok := t.(*types.Array); ok {
		if k, ok := constInt(idx); ok && k < at.Len() {
			return // fixed-size array, constant index: checked by the compiler
		}
		if br.inRangeLoopOver(fc, idx, ap) || isInduction(idx) {
			return
		}
	}
	if _, ok := t.(*types.Map); ok {
		return
	}
	if opt.OnlySchemaDerived && !br.schemaDerived(X) {
		return
	}
	if fc.Cond(b) == br.A.B.False {
		return
	}
	if ownOutput(ap) {
		br.R.Info(rule, cons, p.InstrPos(in), "operates on the library's own signed output (result of SignEnveloped), not on peer input")
		return
	}
	// (a') X = make([]T, len(S)) indexed by the induction variable of a range over S
	if ms, ok := X.(*ssa.MakeSlice); ok {
		if la := lenArg(ms.Len); la != nil && br.inRangeLoopOver(fc, idx, fc.AP(la)) {
			br.R.Trivial(rule, cons, p.InstrPos(in), "slice made with len(S) and indexed by the range index over S")
			return
		}
	}
	// (a) range loop over the same slice
	if br.inRangeLoopOver(fc, idx, ap) {
		br.R.Trivial(rule, cons, p.InstrPos(in), "index is the induction variable of a range loop over the same slice")
		return
	}
	// (b) constant index under a length fact
	if k, ok := constInt(idx); ok {
		if n, ok := br.knownLen(fc, X, b, 0); ok && k < n {
			br.R.Trivial(rule, cons, p.InstrPos(in), fmt.Sprintf("length %d by construction", n))
			return
		}
		if n, ok := br.regexpSubmatchLen(X); ok && k < n {
			ok2, _ := (&NilRules{R: br.R, A: br.A, S: br.S, need: map[string]int{}, mayNilF: map[*ssa.Function]int{}}).impliedNonNil(fc, b, X, 9)
			if ok2 {
				br.R.OK(rule, cons, p.InstrPos(in), fmt.Sprintf("non-nil submatch of a constant regexp with %d groups", n-1))
				return
			}
		}
		if br.lenAtLeast(fc, b, ap, k+1) {
			br.R.OK(rule, cons, p.InstrPos(in), fmt.Sprintf("path condition implies len >= %d", k+1))
			return
		}
		br.R.Bad(rule, cons, p.InstrPos(in), fmt.Sprintf("no dominating guard establishes len(%s) > %d", ap, k))
		return
	}
	// (c) len(X)-c
	if bo, ok := idx.(*ssa.BinOp); ok && bo.Op == token.SUB {
		if la := lenArg(bo.X); la != nil && fc.AP(la) == ap {
			if c, ok := constInt(bo.Y); ok {
				if br.lenAtLeast(fc, b, ap, c) {
					br.R.OK(rule, cons, p.InstrPos(in), fmt.Sprintf("path condition implies len >= %d", c))
					return
				}
				br.R.Bad(rule, cons, p.InstrPos(in), fmt.Sprintf("index len-%d without a guard len >= %d", c, c))
				return
			}
		}
	}
	// (e) the index slices.Index / slices.IndexFunc found in this very slice, on a path where it is not -1
	if ic, ok := idx.(*ssa.Call); ok && len(ic.Call.Args) == 2 && fc.AP(ic.Call.Args[0]) == ap {
		if found, ok := fc.foundByIndex(ic); ok && fc.Implied(b, found) {
			br.R.OK(rule, cons, p.InstrPos(in), "index returned by slices.Index* over the same slice, under index >= 0")
			return
		}
	}
	// (f) an index recorded by a search loop over this very slice (idx := -1; for i := range X { if .. { idx = i } }),
	// used on a path where it is not -1
	if ph, ok := idx.(*ssa.Phi); ok {
		okLeaves, nIdx := true, 0
		seen := map[ssa.Value]bool{}
		var walk func(v ssa.Value)
		walk = func(v ssa.Value) {
			if seen[v] {
				return
			}
			seen[v] = true
			switch y := v.(type) {
			case *ssa.Const:
				if !isIntConst(y, -1) {
					okLeaves = false
				}
			case *ssa.Phi:
				if br.inRangeLoopOver(fc, y, ap) {
					nIdx++
					return
				}
				for _, e := range y.Edges {
					walk(e)
				}
			default:
				if br.inRangeLoopOver(fc, v, ap) {
					nIdx++
				} else {
					okLeaves = false
				}
			}
		}
		walk(ph)
		if okLeaves && nIdx > 0 {
			if found, ok := fc.foundByIndex(ph); ok && fc.Implied(b, found) {
				br.R.OK(rule, cons, p.InstrPos(in), "index recorded by a search loop over the same slice, under index >= 0")
				return
			}
		}
	}
	// (d) variable index guarded by idx < len(X)
	B := br.A.B
	name := "lt(" + fc.AP(idx) + ",len(" + ap + "))"
	if B.HasVar(name) && fc.Implied(b, B.Var(name)) {
		if br.nonNegative(fc, b, idx, 0) {
			br.R.OK(rule, cons, p.InstrPos(in), "guarded by index < len, index not negative")
			return
		}
		br.R.Bad(rule, cons, p.InstrPos(in), "the index is guarded by index < len only: it is a signed value computed by subtraction or taken from input, and nothing establishes index >= 0")
		return
	}
	br.R.Bad(rule, cons, p.InstrPos(in), "index expression is not one of the justified idioms (range induction, constant under a length guard, len-c under a guard)")
}

func (br *BoundsRules) checkSlice(fc *FuncCtx, b *ssa.BasicBlock, x *ssa.Slice, rule string, opt boundsOpts) {
	p := br.A.P
	if x.Low == nil && x.High == nil {
		return
	}
	t := x.X.Type().Underlying()
	if pt, ok := t.(*types.Pointer); ok {
		if at, ok := pt.Elem().Underlying().(*types.Array); ok {
			hi, okh := int64(0), true
			if x.High != nil {
				hi, okh = constInt(x.High)
			}
			lo, okl := int64(0), true
			if x.Low != nil {
				lo, okl = constInt(x.Low)
			}
			if okh && okl && lo <= at.Len() && hi <= at.Len() {
				return
			}
		}
	}
	if opt.OnlySchemaDerived && !br.schemaDerived(x.X) {
		return
	}
	if fc.Cond(b) == br.A.B.False {
		return
	}
	ap := fc.AP(x.X)
	cons := fmt.Sprintf("%s: slice %s", p.FnName(fc.Fn), fc.AP(x))
	okAll := true
	why := []string{}
	for _, bd := range []ssa.Value{x.Low, x.High} {
		if bd == nil {
			continue
		}
		if k, ok := constInt(bd); ok {
			if n, ok := br.knownLen(fc, x.X, b, 0); ok && k <= n {
				why = append(why, fmt.Sprintf("length %d by construction", n))
				continue
			}
			if n, ok := br.regexpSubmatchLen(x.X); ok && k <= n {
				ok2, _ := (&NilRules{R: br.R, A: br.A, S: br.S, need: map[string]int{}, mayNilF: map[*ssa.Function]int{}}).impliedNonNil(fc, b, x.X, 9)
				if ok2 {
					why = append(why, fmt.Sprintf("non-nil submatch of a constant regexp with %d groups", n-1))
					continue
				}
			}
			if br.lenAtLeast(fc, b, ap, k) {
				why = append(why, fmt.Sprintf("len >= %d implied", k))
				continue
			}
			okAll = false
			why = append(why, fmt.Sprintf("no guard establishes len(%s) >= %d", ap, k))
			continue
		}
		// the index of a range loop over the same value: 0 <= i < len(X) inside the body
		if br.inRangeLoopOver(fc, bd, ap) {
			why = append(why, "bound is the index of the range loop over the same value")
			continue
		}
		// len(X) - v  with guard !(v > len(X)-c)
		if bo, ok := bd.(*ssa.BinOp); ok && bo.Op == token.SUB {
			if la := lenArg(bo.X); la != nil && fc.AP(la) == ap {
				if br.subGuard(fc, b, ap, bo.Y) {
					why = append(why, "subtrahend bounded by len under the guard")
					continue
				}
			}
		}
		eap := fc.AP(bd)
		if br.lenAtLeastExpr(fc, b, ap, eap) {
			why = append(why, "guard len >= "+eap+" uses the same expression as the bound")
			continue
		}
		okAll = false
		why = append(why, fmt.Sprintf("bound %s is not covered by a guard over the same expression", eap))
	}
	if okAll {
		br.R.OK(rule, cons, p.InstrPos(x), strings.Join(why, "; "))
	} else {
		br.R.Bad(rule, cons, p.InstrPos(x), strings.Join(why, "; "))
	}
}

// subGuard: X[:len(X)-v] needs 0 <= v <= len(X). Accepts: path condition implies !(len(X)-c < v) for
// some constant c >= 0, and v is non-negative (converted from an unsigned byte, or guarded v >= 1).
func (br *BoundsRules) subGuard(fc *FuncCtx, b *ssa.BasicBlock, ap string, v ssa.Value) bool {
	B := br.A.B
	vap := fc.AP(v)
	upper := false
	for c := 0; c <= 2; c++ {
		var l string
		if c == 0 {
			l = "len(" + ap + ")"
		} else {
			l = fmt.Sprintf("(len(%s)-c:%d)", ap, c)
		}
		name := "lt(" + l + "," + vap + ")"
		if B.HasVar(name) && fc.Implied(b, B.Not(B.Var(name))) {
			upper = true
		}
	}
	if !upper {
		return false
	}
	// non-negative
	if cv, ok := v.(*ssa.Convert); ok {
		if bt, ok := cv.X.Type().Underlying().(*types.Basic); ok && bt.Info()&types.IsUnsigned != 0 {
			return true
		}
	}
	name := "lt(" + vap + ",c:1)"
	if B.HasVar(name) && fc.Implied(b, B.Not(B.Var(name))) {
		return true
	}
	name = "lt(" + vap + ",c:0)"
	if B.HasVar(name) && fc.Implied(b, B.Not(B.Var(name))) {
		return true
	}
	return false
}

// ownOutput: the access path is rooted in the result of the library's own signing step.
func ownOutput(ap string) bool { return strings.Contains(ap, "SignEnveloped") }

// checkMake: make([]T, n, c) with a computed size panics ("len/cap out of range") when the size is negative: each
// non-constant size operand is a length, a sum/product/quotient of non-negative values, a conversion of an unsigned
// value, or is tested against zero on the way.
func (br *BoundsRules) checkMake(fc *FuncCtx, b *ssa.BasicBlock, x *ssa.MakeSlice, rule string, opt boundsOpts) {
	p := br.A.P
	for i, sz := range []ssa.Value{x.Len, x.Cap} {
		if i == 1 && x.Cap == x.Len {
			continue
		}
		cons := fmt.Sprintf("%s: make size %s", p.FnName(fc.Fn), fc.AP(sz))
		if nonNegSize(sz, 0) {
			br.R.OK(rule, cons, p.InstrPos(x), "the size is non-negative by construction")
			continue
		}
		if opt.OnlySchemaDerived && !br.schemaDerived(sz) {
			continue
		}
		// a parameter of an unexported helper: non-negative at every call site
		if prm, isPrm := sz.(*ssa.Parameter); isPrm && fc.Fn.Object() != nil && !fc.Fn.Object().Exported() {
			sites := p.CallersOf(fc.Fn)
			all := len(sites) > 0
			for _, cs := range sites {
				idx := -1
				for k, q := range fc.Fn.Params {
					if q == prm {
						idx = k - cs.Shift
					}
				}
				args := cs.Instr.Common().Args
				if idx < 0 || idx >= len(args) || !nonNegSize(args[idx], 0) {
					all = false
				}
			}
			if all {
				br.R.OK(rule, cons, p.InstrPos(x), fmt.Sprintf("non-negative at all %d call sites of the helper", len(sites)))
				continue
			}
		}
		// a test of the same expression against zero that leaves on the negative side (for a value merged from several
		// paths: on each path)
		ok := guardedNonNeg(fc, b, sz)
		if ph, isPhi := sz.(*ssa.Phi); isPhi && !ok {
			ok = true
			for i, e := range ph.Edges {
				if e == ssa.Value(ph) {
					continue
				}
				if !nonNegSize(e, 0) && !guardedNonNeg(fc, ph.Block().Preds[i], e) {
					ok = false
				}
			}
		}
		if ok {
			br.R.OK(rule, cons, p.InstrPos(x), "a dominating test excludes a negative size")
			continue
		}
		br.R.Bad(rule, cons, p.InstrPos(x), "the size of the slice being made is a signed value that nothing shows to be non-negative: make panics for a negative size")
	}
}

func nonNegSize(v ssa.Value, depth int) bool {
	if depth > 8 {
		return false
	}
	switch x := v.(type) {
	case *ssa.Const:
		return x.Value != nil && x.Int64() >= 0
	case *ssa.Call:
		if bi, ok := x.Call.Value.(*ssa.Builtin); ok {
			switch bi.Name() {
			case "len", "cap", "min", "max":
				if bi.Name() == "min" || bi.Name() == "max" {
					for _, a := range x.Call.Args {
						if !nonNegSize(a, depth+1) {
							return false
						}
					}
				}
				return true
			}
		}
		if sc := x.Call.StaticCallee(); sc != nil {
			switch sc.String() {
			case "(crypto/cipher.Block).BlockSize", "(crypto/cipher.AEAD).NonceSize", "(crypto/cipher.AEAD).Overhead", "encoding/base64.(*Encoding).DecodedLen", "encoding/base64.(*Encoding).EncodedLen", "(hash.Hash).Size":
				return true
			}
		}
		if x.Call.IsInvoke() {
			switch x.Call.Method.Name() {
			case "BlockSize", "NonceSize", "Overhead", "Size", "KeySize":
				return true
			}
		}
	case *ssa.BinOp:
		switch x.Op {
		case token.ADD, token.MUL, token.QUO, token.REM, token.SHR, token.AND:
			return nonNegSize(x.X, depth+1) && nonNegSize(x.Y, depth+1)
		case token.SUB:
			// n - len%n, n - x%n with n > 0 by the same test: the remainder is smaller than the modulus
			if rem, ok := x.Y.(*ssa.BinOp); ok && rem.Op == token.REM && rem.Y == x.X && nonNegSize(rem.X, depth+1) {
				return true
			}
		}
	case *ssa.Convert:
		if bt, ok := x.X.Type().Underlying().(*types.Basic); ok && bt.Info()&types.IsUnsigned != 0 {
			return true
		}
		return nonNegSize(x.X, depth+1)
	case *ssa.Phi:
		for _, e := range x.Edges {
			if e == v {
				continue
			}
			if !nonNegSize(e, depth+1) {
				return false
			}
		}
		return true
	}
	return false
}

// guardedNonNeg: the path condition of block b excludes a negative v (v < 0 false, or 0 < v / -1 < v true).
func guardedNonNeg(fc *FuncCtx, b *ssa.BasicBlock, v ssa.Value) bool {
	ap := fc.AP(v)
	B := fc.A.B
	for _, nm := range []string{"lt(" + ap + ",c:0)", "lt(" + ap + ",c:1)"} {
		if B.HasVar(nm) && fc.Implied(b, B.Not(B.Var(nm))) {
			return true
		}
	}
	for _, nm := range []string{"lt(c:-1," + ap + ")", "lt(c:0," + ap + ")"} {
		if B.HasVar(nm) && fc.Implied(b, B.Var(nm)) {
			return true
		}
	}
	return false
}
