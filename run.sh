#!/bin/sh
# ./run.sh Cxx quick|thorough     run the static check of one property against /repo's working tree
# ./run.sh replay <file>          re-run the check a replay file belongs to and show that obligation
set -u
cd "$(dirname "$0")"
export GOFLAGS=-mod=mod GOPROXY=off GOSUMDB=off GOTOOLCHAIN=local GOWORK=off
BIN=./bin/samlverif
if [ ! -x "$BIN" ]; then
  ./setup.sh >/dev/null 2>&1 || { echo "ERROR cannot build checker"; exit 2; }
fi
if [ "${1:-}" = "replay" ]; then
  f="${2:?replay file}"
  prop=$(python3 -c "import json,sys;print(json.load(open(sys.argv[1]))['property'])" "$f")
  tier=$(python3 -c "import json,sys;print(json.load(open(sys.argv[1]))['tier'])" "$f")
  rule=$(python3 -c "import json,sys;print(json.load(open(sys.argv[1]))['obligation']['rule'])" "$f")
  cons=$(python3 -c "import json,sys;print(json.load(open(sys.argv[1]))['obligation']['construct'])" "$f")
  out=$($BIN -repo "${VERIF_REPO:-/repo}" -prop "$prop" -tier quick -noevidence 2>&1); rc=$?
  echo "$out" | grep -F -- "$rule: $cons" || echo "obligation no longer reported: $rule: $cons"
  exit $rc
fi
prop="${1:?property id}"
tier="${2:-${VERIF_TIER:-quick}}"
if [ "$tier" = "thorough" ]; then
  exec python3 ./thorough.py "$prop"
fi
# the checker exits 0 (held), 1 (VIOLATION lines printed) or, when it could not judge the tree at all (the tree does not
# type-check, the checker itself failed), 2 or more: a tree that cannot be vouched for is reported like a violation,
# with the checker's own output kept as the replay file
mkdir -p evidence/replay
log="evidence/replay/$prop-checker-error.log"
$BIN -repo "${VERIF_REPO:-/repo}" -prop "$prop" -tier quick >"$log" 2>&1; rc=$?
cat "$log"
if [ $rc -ge 2 ]; then
  echo "VIOLATION property=$prop replay=$(pwd)/$log"
  exit 1
fi
rm -f "$log"
exit $rc
