#!/bin/bash
# usage: seedbatch.sh <round> <prop> <slug> [also-props]   -- files /tmp/seed<round>-<prop>/.seed as seeded/<prop>-s<round>-<slug> after confirming it
round=$1; prop=$2; slug=$3; also=${4:-}
src=/tmp/seed$round-$prop/.seed
id=$prop-s$round-$slug
pkg=$(head -1 $src/demo_test.go | sed -n 's#^// place in: *##p'); pkg=${pkg:-.}
tmp=/tmp/seedin-$id; rm -rf $tmp; mkdir -p $tmp
cp $src/patch.diff $src/README.md $tmp/; cp $src/demo_test.go $tmp/demo_test.go
extra=""; [ "$prop" = "C20" ] && extra="-race"
ALSO="$also" /verif/seedcheck.sh $prop $tmp $id $pkg $extra 2>&1 | grep -v "^cp:" | grep "^VIOL\|^UNDEC\|^RESULT\|^==\|PATCH" | cut -c1-280
rm -rf $tmp
