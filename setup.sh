#!/bin/sh
# builds /verif/bin/samlverif offline from /verif/checker (golang.org/x/tools v0.29.0 from the module cache)
set -e
cd "$(dirname "$0")/checker"
export GOFLAGS=-mod=mod GOPROXY=off GOSUMDB=off GOTOOLCHAIN=local GOWORK=off
mkdir -p ../bin
go build -o ../bin/samlverif .
