#!/usr/bin/env python3
"""rep.py FILE <<< python-literal list of (old,new) pairs; asserts each old occurs exactly once."""
import sys, ast
path = sys.argv[1]
pairs = ast.literal_eval(sys.stdin.read())
s = open(path).read()
for i, (old, new) in enumerate(pairs):
    n = s.count(old)
    if n != 1:
        sys.exit(f"rep.py: pair {i}: old text occurs {n} times in {path}: {old[:70]!r}")
    s = s.replace(old, new, 1)
open(path, 'w').write(s)
print("ok", len(pairs))
