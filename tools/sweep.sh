#!/bin/sh
# full QA sweep from a snapshot: build first, then three lanes of thorough.py
./setup.sh || exit 2
lane() { for p in "$@"; do python3 thorough.py $p > sweep-$p.log 2>&1; grep "^QA\|QA-" sweep-$p.log | cut -c1-400; done; }
lane C01 C04 C07 C10 C13 C16 C19 &
lane C02 C05 C08 C11 C14 C17 C20 &
lane C03 C06 C09 C12 C15 C18 &
wait
