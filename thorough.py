#!/usr/bin/env python3
"""Thorough tier of one property:
   1. all rules of the property with the VTA-refined call graph (the binary itself also re-loads the
      tree under GOARCH=386 to cover build-constrained files);
   2. checker QA on scratch copies of the *current* /repo tree (never /repo itself): every must-fire
      variant (mutants/<prop>/*.patch and seeded/*/patch.diff for this property) is applied to a copy,
      the copy is analysed in a fresh process and the check must report a violation; every
      must-stay-silent variant (silent/*.patch) must leave the verdict unchanged.
   The exit code and VIOLATION lines concern /repo's tree only; QA results are printed as QA lines and
   recorded in the evidence file."""
import json, os, shutil, subprocess, sys, tempfile, time, glob, concurrent.futures as cf

HERE = os.path.dirname(os.path.abspath(__file__))
REPO = os.environ.get("VERIF_REPO", "/repo")
BIN = os.environ.get("VERIF_BIN") or os.path.join(HERE, "bin", "samlverif")
ENV = dict(os.environ, GOFLAGS="-mod=mod", GOPROXY="off", GOSUMDB="off", GOTOOLCHAIN="local", GOWORK="off")


def variants(prop):
    must, silent = [], []
    for p in sorted(glob.glob(os.path.join(HERE, "mutants", prop, "*.patch"))):
        must.append((os.path.basename(p)[:-6], p, None))
    for d in sorted(glob.glob(os.path.join(HERE, "seeded", "*"))):
        meta = os.path.join(d, "meta.json")
        patch = os.path.join(d, "patch.diff")
        if os.path.exists(meta) and os.path.exists(patch):
            m = json.load(open(meta))
            if m.get("undetected"):
                continue  # recorded as not detectable by this family (see meta.json / DESIGN.md)
            props = m.get("detected_by") or [m.get("property")]
            if prop in props:
                must.append(("seeded/" + os.path.basename(d), patch, m.get("expect_rule")))
    for p in sorted(glob.glob(os.path.join(HERE, "silent", "*.patch"))):
        silent.append((os.path.basename(p)[:-6], p, None))
    # large behaviour-preserving rewrites (DESIGN.md 9.6); the pairs listed in refactors/KNOWN_NOISY.txt are
    # documented limitations of named rules and are reported as such, not as noise
    for p in sorted(glob.glob(os.path.join(HERE, "refactors", "*.patch"))):
        silent.append(("refactors/" + os.path.basename(p)[:-6], p, None))
    return must, silent


def known_noisy():
    out = {}
    try:
        for l in open(os.path.join(HERE, "refactors", "KNOWN_NOISY.txt")):
            if l.startswith("#") or not l.strip():
                continue
            f = l.split()
            out["refactors/" + f[0][:-6]] = {w for w in f[1:] if w[:1] == "C" and "." in w and w[1:3].isdigit()}
    except OSError:
        pass
    return out


def run_variant(prop, name, patch, baseline_rc):
    tmp = tempfile.mkdtemp(prefix="samlverif-")
    try:
        dst = os.path.join(tmp, "repo")
        subprocess.run(["rsync", "-a", "--exclude", ".git", REPO + "/", dst + "/"], check=True)
        ap = subprocess.run(["patch", "-p1", "-s", "-f", "-d", dst, "-i", patch], capture_output=True, text=True)
        if ap.returncode != 0:
            return name, "skipped", "patch does not apply to the current tree"
        r = subprocess.run([BIN, "-repo", dst, "-prop", prop, "-tier", "quick", "-noevidence"], capture_output=True, text=True, env=ENV)
        lines = [l for l in r.stdout.splitlines() if l.startswith(("VIOLATED", "UNDECIDED"))]
        if r.returncode == 2:
            return name, "error", (r.stdout + r.stderr)[-400:]
        rules = sorted({l.split()[1].rstrip(":") for l in lines if len(l.split()) > 1})
        return name, ("fired" if r.returncode == 1 else "silent"), "rules " + ",".join(rules) + " | " + "; ".join(l[:200] for l in lines[:3])
    finally:
        shutil.rmtree(tmp, ignore_errors=True)


def main():
    prop = sys.argv[1]
    t0 = time.time()
    # evidence goes next to this script (a background sweep from a snapshot must not rewrite /verif/evidence)
    r = subprocess.run([BIN, "-repo", REPO, "-prop", prop, "-tier", "thorough", "-out", os.path.join(HERE, "evidence")], env=ENV, capture_output=True, text=True)
    sys.stdout.write(r.stdout)
    sys.stderr.write(r.stderr)
    rc = r.returncode
    if rc >= 2:
        # the tree could not be judged at all (it does not type-check, or the checker failed): reported like a violation
        os.makedirs(os.path.join(HERE, "evidence", "replay"), exist_ok=True)
        log = os.path.join(HERE, "evidence", "replay", prop + "-checker-error.log")
        open(log, "w").write(r.stdout + r.stderr)
        print(f"VIOLATION property={prop} replay={log}")
        sys.exit(1)
    must, silent = variants(prop)
    results = {"must_fire": [], "must_stay_silent": []}
    with cf.ThreadPoolExecutor(max_workers=6) as ex:
        futs = {ex.submit(run_variant, prop, n, p, rc): ("must_fire", n) for n, p, _ in must}
        futs.update({ex.submit(run_variant, prop, n, p, rc): ("must_stay_silent", n) for n, p, _ in silent})
        for f in cf.as_completed(futs):
            kind, n = futs[f]
            name, verdict, detail = f.result()
            results[kind].append({"variant": name, "result": verdict, "detail": detail})
    for k in results:
        results[k].sort(key=lambda x: x["variant"])
    killed = sum(1 for x in results["must_fire"] if x["result"] == "fired")
    skipped = sum(1 for x in results["must_fire"] if x["result"] == "skipped")
    missed = [x["variant"] for x in results["must_fire"] if x["result"] in ("silent", "error")]
    # a silent variant must not change the verdict of the tree: with a clean tree (rc 0) it must stay silent
    kn = known_noisy()
    noisy, limited = [], []
    for x in results["must_stay_silent"]:
        if x["result"] != "fired" or rc != 0:
            continue
        rules = {w for w in x["detail"][6:].split(" | ")[0].split(",") if w}
        if rules and rules <= kn.get(x["variant"], set()):
            x["result"] = "known-limitation"
            limited.append(x["variant"])
        else:
            noisy.append(x["variant"])
    print(f"QA {prop}: must-fire variants applied={len(must)-skipped} fired={killed} skipped={skipped} missed={missed}; "
          f"must-stay-silent variants={len(silent)} noisy={noisy} documented-limitations={limited}")
    for x in results["must_fire"]:
        if x["result"] in ("silent", "error"):
            print(f"QA-MISSED property={prop} variant={x['variant']} ({x['result']}) {x['detail']}")
    for n in noisy:
        print(f"QA-NOISY property={prop} variant={n}")
    # which rules of the property were exercised by at least one variant (information about the corpus)
    fired_rules = {}
    for x in results["must_fire"]:
        if x["result"] == "fired" and x["detail"].startswith("rules "):
            for rl in x["detail"][6:].split(" | ")[0].split(","):
                if rl:
                    fired_rules.setdefault(rl, []).append(x["variant"])
    ev = os.path.join(HERE, "evidence", prop + ".json")
    try:
        d = json.load(open(ev))
        d["coverage"]["qa_must_fire"] = results["must_fire"]
        d["coverage"]["qa_must_stay_silent"] = results["must_stay_silent"]
        d["coverage"]["mutants_applied"] = len(must) - skipped
        d["coverage"]["mutants_killed"] = killed
        d["coverage"]["mutants_skipped"] = skipped
        d["coverage"]["mutants_missed"] = missed
        own = [r["rule"] for r in d["coverage"].get("rules", [])]
        d["coverage"]["qa_rules_exercised"] = {r: len(fired_rules.get(r, [])) for r in own}
        never = [r for r in own if r not in fired_rules]
        print(f"QA {prop}: rules with a firing variant {len(own)-len(never)}/{len(own)}; without: {never}")
        d["wall_s"] = time.time() - t0
        json.dump(d, open(ev, "w"), indent=1)
    except Exception as e:  # evidence must exist; the binary wrote it
        print("ERROR property=%s cannot augment evidence: %s" % (prop, e))
        sys.exit(2)
    sys.exit(rc)


if __name__ == "__main__":
    main()
