#!/bin/sh
# usage: mkmutant.sh <out.patch> <file-relative-to-repo> <python-expr-file>
# applies a python edit (stdin: python code operating on variable s) to a scratch copy of one file and writes the diff
out="$1"; file="$2"
tmp=$(mktemp -d)
mkdir -p "$tmp/a/$(dirname "$file")" "$tmp/b/$(dirname "$file")"
cp "/repo/$file" "$tmp/a/$file"; cp "/repo/$file" "$tmp/b/$file"
python3 - "$tmp/b/$file" <<PY
import sys
p=sys.argv[1]
s=open(p).read()
orig=s
$(cat)
assert s!=orig, "edit did not change the file"
open(p,'w').write(s)
PY
rc=$?
if [ $rc -ne 0 ]; then rm -rf "$tmp"; echo "FAILED $out"; exit 1; fi
(cd "$tmp" && diff -u "a/$file" "b/$file" > "$out")
rm -rf "$tmp"
echo "wrote $out"
