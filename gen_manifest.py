#!/usr/bin/env python3
"""Regenerates /verif/MANIFEST.json from the table below (kept in one place so that the claimed
list, the not_applicable list and the per-property texts cannot drift apart)."""
import json, os, subprocess, sys

HERE = os.path.dirname(os.path.abspath(__file__))

# id -> (claimed?, decided (what the static rules settle), declined (value-level clauses), technique, design_ref)
P = {
 "C01": ("signature gate on every path to a returned assertion, same element verified and unmarshalled, trusted roots only from SP configuration (signing-use key descriptors / fingerprint match / pinned certificate), namespace-aware child matching, round-trip validation before every parse of peer bytes",
         "goxmldsig digest/canonicalisation correctness, parser differentials not caught by xml-roundtrip-validator",
         "must-pass-through over path conditions + value identity by access path + provenance slices", "4 C01"),
 "C02": ("the exact set, direction and tolerance (linear normal form now > X + k*Tol) of every time comparison that can reject; all subject confirmations; validator applied to the returned assertion; library clock",
         "lexical time parsing, zero instants, time arithmetic itself",
         "reject-table extraction + linear normal form of time terms", "4 C02"),
 "C03": ("exact-equality checks on Destination/Issuer/Recipient/Audience/Status against configured values with only the allowed bypasses, compared as decision diagrams with a spec table; use discipline on those fields",
         "URL string semantics, correctness of the configured entity IDs",
         "reject-table comparison (ROBDD over canonical guard atoms) + use discipline", "4 C03"),
 "C04": ("InResponseTo matching rows at response and confirmation level, artifact correlation, provenance of the outstanding-ID slice in the middleware",
         "authenticity of tracking cookies (covered by C16/C17 rules), application hooks",
         "reject-table comparison + exists-loop canonicalisation + provenance", "4 C04"),
 "C05": ("request gates (freshness coefficient, version, destination, registry lookup), ACS endpoint stored only from registered metadata elements under the documented guards and order",
         "duplicate-entry semantics, registry contents",
         "reject table + who-may-write + provenance of stored endpoint", "4 C05"),
 "C06": ("provenance of every scoping field of the built assertion/response, sign-then-store-then-rebuild typestate for both signatures, POST-only binding gate",
         "that the signatures verify cryptographically",
         "composite-literal field provenance + typestate + reject rows", "4 C06"),
 "C07": ("writer/reader table agreement between every Element() builder and the xml struct tags that read its output back (element, attribute, character-data and child names with namespaces); string fields emitted verbatim and guarded only by their own emptiness; every slice emitted by one unconditional in-order loop; every field of the Response/Assertion types read by its builder; the default assertion maker copies session strings, groups and custom attributes verbatim under emptiness tests only; canonical escaping on every IdP serialisation; standalone trees declare the prefixes they use; the SP publishes the entity ID, ACS endpoint and encryption certificate it later insists on",
         "the round trip itself for all XML 1.0 characters, signature methods and key types; exclusive-c14n, etree escaping and encoding/xml decoding correctness per code point; the encryption round trip (structural part under C08/C10); SP configurations with Intermediates",
         "writer/reader table agreement + field provenance + loop-shape (dominance) analysis + serialisation-settings provenance + sibling agreement", "4 C07"),
 "C08": ("plaintext fallback only on os.ErrNotExist, ErrNotExist only when no certificate string was found, only ciphertext carries the assertion, fresh key/IV buffers filled from RandReader with the error checked, decrypt branch goes through the same validator with every error a reject",
         "confidentiality of RSA-OAEP/AES, absence of user data elsewhere in the form bytes",
         "reject rows + who-may-read + provenance of key/IV buffers", "4 C08"),
 "C09": ("nil/bounds/precondition guards on every dereference of an optional (pointer) schema field, document root, path-query result, slice index and cipher precondition reachable from the consuming entry points; bounded inflate; opaque error type discipline; no input-triggerable panic instruction; pointer slices sized up front are stored on every iteration of their filling loop (no nil element among the trust roots)",
         "hangs, panics inside dependencies, allocation bounds other than inflate",
         "guard-implication over path conditions (API-precondition and nil-dominance rules), who-may-call, return discipline", "4 C09"),
 "C10": ("offered algorithms are registered decrypters, cipher parameters match the W3C table, Encrypt/Decrypt framing agreement per cipher, plaintext flows into the cipher call, padding rows, digest provenance",
         "Decrypt(Encrypt(p)) = p for all inputs, interoperability",
         "table agreement + def-use flow + reject rows", "4 C10"),
 "C11": ("the C09 guard rules over everything reachable from xmlenc.Decrypt, certificate/key match rows, GCM Open gate, padding lower bound",
         "panics inside crypto primitives and etree's path engine",
         "guard-implication over path conditions + reject rows", "4 C11"),
 "C12": ("query-string leaves escaped, RelayState emitted under at most a non-empty guard, writer Close order, reader/writer codec agreement, ID entropy and source, request field provenance",
         "that the IdP accepts every request, XML well-formedness, stdlib escaping semantics",
         "taint with sanitisers + typestate + provenance", "4 C12"),
 "C13": ("method/key-type table in the signing-context constructor, sign-when-configured in all message constructors, signed string is a prefix of the emitted query with exactly the three parameters, enveloped-signature typestate, metadata publication",
         "that signatures verify",
         "reject rows + must-pass-through + string-concatenation provenance", "4 C13"),
 "C14": ("html/template for every emitted form, no trusted-type casts, non-constant response body bytes derive from template output, endpoint scheme check on both location attributes of both endpoint types and on every endpoint-bearing metadata field",
         "html/template's contextual escaping, url.Parse internals",
         "type-level who-may-call + provenance + must-pass-through", "4 C14"),
 "C15": ("alias-struct Marshal/Unmarshal symmetry (shadow fields identical, initialised from and copied back to the real field on the decode-success path); the xsd:duration writer's and reader's unit tables agree with each other and with the designator each regexp group is tied to, integer arithmetic on |d| with the sign carried by the (-?) group, no float-to-integer conversion except of math.Round; RelaxedTime marshals Round(ms).UTC() in the xsd:dateTime layout and every parse arm stores Parse(...).Round(ms) under err == nil, layouts cover zoned and zone-less forms, non-matching text is an error; the endpoint normaliser returns its argument or \"\" and every call stores back into the same field; no metadata struct field is dropped by encoding/xml (unexported, xml:\"-\", name clash)",
         "the numerical round trip itself over all int64 durations and instants, the set of strings time.Parse and the regexps admit, equality of re-parsed generated metadata (depends on the clock's resolution), the fixed point of arbitrary EntityDescriptor values",
         "writer/reader table agreement + conversion-operand provenance + reject rows + struct-tag conflict analysis", "4 C15"),
 "C16": ("decode gates of both JWT codecs (allowed methods, key function, audience, issuer, marker), marker disjointness, expiry at mint, handler gates, claims provenance",
         "golang-jwt's signature and time validation",
         "reject-table comparison + sibling agreement + must-pass-through", "4 C16"),
 "C17": ("per-request conditions: outstanding-ID provenance, tracker gates, redirect-target provenance, operation order, cookie flags, tracking lifetime",
         "multi-flow interleavings (history clause), browser cookie semantics, replay",
         "provenance + reject rows + dominance order", "4 C17"),
 "C18": ("signature required on the parsed root on every nil return, field rows with tolerance, sibling agreement of the form and redirect variants",
         "signature cryptography",
         "must-pass-through + reject-table comparison + sibling agreement", "4 C18"),
 "C19": ("per-request conditions: authentication gate of GetSession, session gate of the SSO handlers, exactly-one-reply on every handler path, password-hash non-disclosure, store-error discipline",
         "histories, fault sequences, restart, registry/store consistency over time (the stale-registry defect is a relation between two requests and has no per-function shape)",
         "must-pass-through + path-count of reply actions + who-may-read", "4 C19"),
 "C20": ("guarded-by (map fields under their struct's mutex), lock pairing on all exits, no re-acquisition through the call graph, acyclic lock order, no unlocked request-time stores to shared state",
         "linearizability as a property of histories, races inside dependencies, fairness",
         "lock-set dataflow + interprocedural may-acquire summaries + lock-order graph", "4 C20"),
}

TITLES = {}
for line in open(os.path.join(HERE, "properties.jsonl")):
    d = json.loads(line)
    TITLES[d["id"]] = d["title"]

def claimed_ids():
    out = subprocess.run([os.path.join(HERE, "bin", "samlverif"), "-list"], capture_output=True, text=True)
    return [l.strip() for l in out.stdout.split() if l.strip()]

def main():
    claimed = claimed_ids()
    checks, na = [], []
    for pid in sorted(P):
        decided, declined, technique, ref = P[pid]
        if pid in claimed:
            checks.append({
                "property_id": pid,
                "quick_cmd": f"./run.sh {pid} quick",
                "thorough_cmd": f"./run.sh {pid} thorough",
                "evidence_file": f"/verif/evidence/{pid}.json",
                "replay_cmd_template": "./run.sh replay {path}",
                "engine": "samlverif",
                "level_claimed": {
                    "category": "other",
                    "text": "Static decision of structural necessary conditions of the property, for every input/configuration/schedule at once, from the type-checked SSA program of /repo's current tree: " + decided + ". Breaking any of these conditions breaks the behaviour for some input, so each is a genuine necessary condition; the value-level clauses are not claimed (see level_note).",
                    "design_ref": "DESIGN.md section " + ref,
                },
                "level_note": "NOT decided by this check (value/history level): " + declined + ". Trusted base: go/packages+go/ssa of golang.org/x/tools v0.29.0, the Go type checker, pinned dependencies (goxmldsig 1.4.0, etree 1.5.0, xml-roundtrip-validator 0.1.0, golang-jwt 4.5.2, x/crypto 0.33.0, Go stdlib). Access-path facts are killed only by explicit stores in the same function (optimistic aliasing, recorded in the evidence).",
                "technique": "static analysis: " + technique,
            })
        else:
            na.append({"property_id": pid, "reason": "not claimed yet: the static rules for this property (" + technique + ") are not armed in this revision of the checker; no other technique is substituted"})
    m = {
        "version": 1,
        "setup_cmd": "./setup.sh",
        "hooks": {
            "guard": "verif",
            "enable": "none needed: the checks are static and read /repo's working tree as it is (no hook commits, no build tag in use)",
            "baseline_off_cmd": "cd /repo && go test -vet=off -count=1 ./...",
            "source_commits": [],
            "add_only": True,
        },
        "engines": [{
            "name": "samlverif",
            "path": "/verif/checker",
            "serves_properties": [c["property_id"] for c in checks],
            "kind_free_text": "repo-specific static analyser over go/packages + go/ssa + CHA/VTA call graphs: canonical access paths, per-function path conditions as ROBDDs over guard atoms, reject-table comparison, provenance slices, lock-set analysis, table agreement",
        }],
        "checks": checks,
        "not_applicable": na,
        "notes": "All claims are level 'other' (static structural necessary conditions). quick = all rules of the property (VTA-refined call graph); thorough = the same rules, a second load under GOARCH=386, and the checker-QA corpora (must-fire: mutants + seeded changes; must-stay-silent: single-idea refactors and large rewrites) applied to scratch copies of the current tree. Known findings: /verif/known_findings.txt.",
    }
    json.dump(m, open(os.path.join(HERE, "MANIFEST.json"), "w"), indent=1)
    print("claimed:", [c["property_id"] for c in checks])
    print("not_applicable:", [n["property_id"] for n in na])

if __name__ == "__main__":
    main()
