#!/bin/bash
# usage: rfcheck.sh <worktree>  -- run every property's rules on a (supposedly behaviour-preserving) refactored tree
export GOFLAGS=-mod=mod GOPROXY=off GOSUMDB=off GOTOOLCHAIN=local
BIN=${BIN:-/verif/bin/samlverif}
wt=$1
(cd $wt && go build ./... 2>&1 | head -3)
echo "== $(basename $wt): $(cd $wt && git diff --stat | tail -1)"
$BIN -repo $wt -prop all -noevidence 2>&1 | grep "^VIOLATED\|^UNDECIDED\|^ERROR" | cut -c1-330
